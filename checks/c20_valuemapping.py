"""C20 — ValueMapping implements the DSP0004 ValueMap/Values semantics (mode E).

Every enumerated (ValueMap, Values, values_default, type, element kind) tuple is turned into a real
CIM class, a ValueMapping is obtained through the public factory methods, and its three public
translations are compared with the reference model mc/refmodels/valuemap.py.

Aspects (signature field 'check'):
  create    the factory returns a mapping exactly for well-formed pairs; malformed or size-mismatched
            pairs raise ModelError/ValueError; nothing else is ever raised
  tovalues  for every probe value v: the Values string of an exact entry, else of an enclosing
            range, else of the unclaimed entry, else ValueError
  tobinary  for every Values string s: a value / range all of whose members map back to s (on
            mappings without overlaps and duplicates: exactly the entry's value / range)
  items     the entries in qualifier order

Shard families (shard field 'check', usable with --only):
  core      all ValueMap sequences x 8 types, Values of equal size, every value of the 8-bit types
  sizes     all ValueMap sequences x Values shorter/longer/with duplicates x values_default
            (full length for BOUNDS.sizes_long_types, one entry less for the other types)
  kinds     property / array property / method / parameter / array parameter, CIMInt probe values,
            through a stub server and through pywbem_mock.FakedWBEMConnection
  novm      Values without ValueMap
  special   missing / NULL qualifiers, NULL entries, non-integer element types
  wide      (thorough) every value of the 16-bit types
"""
import itertools
import json
import os
import warnings

import mc
from mc.core import Acc, HarnessError
from mc import minimize as M
from mc.refmodels import valuemap as R

import pywbem_mock
from pywbem import (CIMClass, CIMProperty, CIMMethod, CIMParameter, CIMQualifier,
                    CIMQualifierDeclaration, ValueMapping, ModelError)
from pywbem import Uint8, Uint16, Uint32, Uint64, Sint8, Sint16, Sint32, Sint64

R.selftest()

ID = 'C20'
RULE = ('ValueMap arrays are all sequences up to the length bound over the entry alphabet '
        '(literals in all four notations, closed/open/degenerate ranges, the unclaimed marker, '
        'entries at the type limits, malformed entries); each is combined with Values arrays of '
        'equal, shorter and longer size and with duplicates, values_default None/"dflt"/"" (empty), no '
        'ValueMap at all, the 8 integer types and the 5 element kinds; probe values are every '
        'value of the type (8-bit; 16-bit in family wide) or every bound of every entry, +-1, the '
        'type limits and 0/+-1. Not a full product: Values of other than equal size (family '
        'sizes) use the full length bound for BOUNDS.sizes_long_types and one entry less for the '
        'other types; the element kinds, CIMInt probe values and the FakedWBEMConnection route '
        '(family kinds) use arrays up to kinds_len / kinds_faked_len; family core is the full '
        'product of sequences x types. A case is one mapping with all its probes; it is non-trivial if '
        'pywbem built the mapping and at least one answer was decided by the reference model '
        '(pairs both sides reject, and mappings on which the statement is silent, are trivial)')
ASSUMPTIONS = [
    'DSP0004 ANNEX A integerValue grammar as transcribed in mc/refmodels/valuemap.py '
    '(octalValue = [sign] "0" 1*octalDigit, so "010" is 8)',
    'an omitted range bound next to the unclaimed marker, next to another omitted bound, or next '
    'to an entry outside the type, and ranges that come out empty, are not defined by the '
    'statement: any ModelError/ValueError or any answer of a possibly-claiming entry is accepted',
    'the stub server returns the CIMClass object unchanged; family kinds repeats a reduced set '
    'through FakedWBEMConnection.GetClass',
    'int and CIMInt results are not distinguished (the statement does not name the result type)',
]
BOUNDS = {
    'quick': {'valuemap_len': 3, 'atoms': 24, 'sizes_long_types': ['uint8', 'sint32'],
              'sizes_len_long': 3, 'sizes_len_short': 2, 'sizes_short_groups': 1, 'kinds_len': 2,
              'kinds_faked_len': 2, 'novm_len': 4, 'wide_len': 0},
    'thorough': {'valuemap_len': 4, 'atoms': 24, 'sizes_long_types': ['uint8'],
                 'sizes_len_long': 4, 'sizes_len_short': 3, 'sizes_short_groups': 5, 'kinds_len': 3,
                 'kinds_faked_len': 2, 'novm_len': 5, 'wide_len': 2},
}

TYPES = ['uint8', 'uint16', 'uint32', 'uint64', 'sint8', 'sint16', 'sint32', 'sint64']
CIMTYPES = {'uint8': Uint8, 'uint16': Uint16, 'uint32': Uint32, 'uint64': Uint64,
            'sint8': Sint8, 'sint16': Sint16, 'sint32': Sint32, 'sint64': Sint64}
KINDS = ['prop', 'prop[]', 'method', 'param', 'param[]']
NONINT_TYPES = ['string', 'boolean', 'real32', 'real64', 'datetime', 'char16', 'reference']

# entry alphabet; MAX / MIN are replaced by the limits of the element type
WELL = ['0', '1', '5', '0x5', '0101b', '07', '+2', '-1', '2..4', '..2', '5..', '3..3', '..',
        'MAX', 'MAX..', '..MIN']
ODD = ['010',      # valid DSP0004 octal (8)
       '4..2']     # grammatical, but an empty range
BAD = ['x', '', '1..x', '1...2', '08', '5\n']
ATOMS = WELL + ODD + BAD
VALSTR = ['a', 'b', 'c', 'd', 'e', 'f', 'g', 'h']
DFLT = 'dflt'
NS = 'root/c20'
CLASSNAME = 'C20_Class'


def render(atom, typ):
    lo, hi = R.TYPE_LIMITS[typ]
    return atom.replace('MAX', str(hi)).replace('MIN', str(lo))


def sequences(maxlen, first=None):
    """all atom sequences up to maxlen, shortest first; restricted to those starting with atom
    index `first` (first=-1: only the empty sequence)"""
    if first == -1:
        yield ()
        return
    for n in range(1, maxlen + 1):
        for rest in itertools.product(ATOMS, repeat=n - 1):
            yield (ATOMS[first],) + rest


def mkspec(vm, vals, dflt=None, typ='uint8', kind='prop', route='stub', probes='bounds',
           cimint=False):
    return dict(vm=vm, vals=vals, dflt=dflt, type=typ, kind=kind, route=route, probes=probes,
                cimint=cimint)


def valid(spec):
    """spec is inside the domain of the harness (the minimiser must not leave it)"""
    try:
        if set(spec) != {'vm', 'vals', 'dflt', 'type', 'kind', 'route', 'probes', 'cimint'}:
            return False
        for k in ('vm', 'vals'):
            x = spec[k]
            if x is None or x == 'NULL':
                continue
            if not isinstance(x, list):
                return False
            for e in x:
                if not (e is None and k == 'vm') and not isinstance(e, str):
                    return False
        if spec['dflt'] is not None and not isinstance(spec['dflt'], str):
            return False
        if spec['type'] not in TYPES and spec['type'] not in NONINT_TYPES:
            return False
        if spec['kind'] not in KINDS or spec['route'] not in ('stub', 'faked'):
            return False
        if spec['probes'] not in ('full', 'bounds') or not isinstance(spec['cimint'], bool):
            return False
        if spec['probes'] == 'full' and spec['type'] not in ('uint8', 'sint8', 'uint16', 'sint16'):
            return False
        if spec['route'] == 'faked' and not (isinstance(spec['vm'], (list, type(None))) and
                                             isinstance(spec['vals'], list) and
                                             None not in (spec['vm'] or []) and
                                             spec['type'] in TYPES):
            return False
        return True
    except (TypeError, KeyError):
        return False


# ------------------------------------------------------------------------------------------
# the seam: a real CIMClass handed to the public factory methods

class StubServer:
    """The smallest `server` the factories accept: they only call
    GetClass(ClassName=, namespace=, LocalOnly=False, IncludeQualifiers=True)."""

    def __init__(self, klass):
        self.klass = klass

    def GetClass(self, ClassName, namespace=None, LocalOnly=None, IncludeQualifiers=None, **kw):
        return self.klass


_FAKED = None


def faked_connection():
    global _FAKED
    if _FAKED is None:
        conn = pywbem_mock.FakedWBEMConnection(default_namespace=NS)
        scopes = dict(PROPERTY=True, METHOD=True, PARAMETER=True)
        conn.add_cimobjects([
            CIMQualifierDeclaration('ValueMap', 'string', is_array=True, scopes=scopes),
            CIMQualifierDeclaration('Values', 'string', is_array=True, scopes=scopes,
                                    translatable=True)], namespace=NS)
        _FAKED = conn
    return _FAKED


def make_class(spec):
    quals = []
    for name, x in (('ValueMap', spec['vm']), ('Values', spec['vals'])):
        if x is None:
            continue
        quals.append(CIMQualifier(name, None if x == 'NULL' else list(x), type='string'))
    typ, kind = spec['type'], spec['kind']
    extra = {'reference_class': 'C20_Other'} if typ == 'reference' and kind != 'method' else {}
    if kind in ('prop', 'prop[]'):
        return CIMClass(CLASSNAME, properties=[
            CIMProperty('P', None, type=typ, is_array=(kind == 'prop[]'), qualifiers=quals, **extra)])
    if kind == 'method':
        return CIMClass(CLASSNAME, methods=[CIMMethod('M', return_type=typ, qualifiers=quals)])
    return CIMClass(CLASSNAME, methods=[CIMMethod('M', return_type='uint32', parameters=[
        CIMParameter('Q', typ, is_array=(kind == 'param[]'), qualifiers=quals, **extra)])])


_CODE_LABEL = {}


def pywbem_frames(exc):
    """function names of the frames inside the pywbem under test, outermost first"""
    out = []
    tb = exc.__traceback__
    while tb is not None:
        code = tb.tb_frame.f_code
        label = _CODE_LABEL.get(code, 0)
        if label == 0:
            label = None
            if code.co_filename.startswith(os.path.join(mc.REPO, '')):
                label = '%s.%s' % (os.path.splitext(os.path.basename(code.co_filename))[0],
                                   code.co_name)
            _CODE_LABEL[code] = label
        if label is not None:
            out.append(label)
        tb = tb.tb_next
    return out


def raised_at(exc):
    frames = pywbem_frames(exc)
    if not frames:
        return 'outside-pywbem'
    if isinstance(exc, RecursionError):
        # the frame in which the limit is hit depends on the stack depth of the caller
        counts = {}
        for f in frames:
            counts[f] = counts.get(f, 0) + 1
        return sorted(counts, key=lambda f: (-counts[f], f))[0]
    return frames[-1]


def obtain(spec):
    """-> ('unbuildable', None, None) | ('ok', mapping, None) | ('rejected', excname, None)
          | ('raised', excname, at)"""
    try:
        klass = make_class(spec)
    except (ValueError, TypeError):
        if spec['type'] in TYPES:
            raise
        return 'unbuildable', None, None
    if spec['route'] == 'faked':
        server = faked_connection()
        server.add_cimobjects(klass, namespace=NS)
    else:
        server = StubServer(klass)
    # both call forms: values_default omitted, and passed (also when it is None)
    kw = {} if spec['dflt'] is None and spec['route'] == 'stub' else dict(values_default=spec['dflt'])
    # the class object the server hands out may be shared (a class cache): building a mapping must
    # not change it, otherwise the next mapping built from it is wrong
    before = klass.tomof() if spec['route'] == 'stub' and spec['type'] in TYPES else None
    try:
        try:
            try:
                if spec['kind'] in ('prop', 'prop[]'):
                    vm = ValueMapping.for_property(server, NS, CLASSNAME, 'P', **kw)
                elif spec['kind'] == 'method':
                    vm = ValueMapping.for_method(server, NS, CLASSNAME, 'M', **kw)
                else:
                    vm = ValueMapping.for_parameter(server, NS, CLASSNAME, 'M', 'Q', **kw)
            finally:
                if before is not None and klass.tomof() != before:
                    return 'raised', 'class-object-of-the-server-modified', 'factory'
        except (ModelError, ValueError) as exc:
            return 'rejected', type(exc).__name__, None
        except Exception as exc:
            return 'raised', type(exc).__name__, raised_at(exc)
    finally:
        if spec['route'] == 'faked':
            server.DeleteClass(CLASSNAME, namespace=NS)
    if not isinstance(vm, ValueMapping):
        return 'raised', 'returned-' + type(vm).__name__, 'factory'
    return 'ok', vm, None


# ------------------------------------------------------------------------------------------
# comparison with the reference model

def is_int(x):
    return isinstance(x, int) and not isinstance(x, bool)


def binary_matches(want, got):
    if want == 'ANY':
        return True
    if want is None:
        return got is None
    if is_int(want):
        want = (want, want)
    lo, hi = want
    if is_int(got):
        return lo == hi == got
    if isinstance(got, (tuple, list)) and len(got) == 2 and is_int(got[0]) and is_int(got[1]):
        return (got[0], got[1]) == (lo, hi)
    return False


def owner_level(model, s):
    if not isinstance(s, str):
        return 'non-string'
    kinds = set(e.kind for e in model.entries if e.string == s)
    for k, name in (('single', 'exact'), ('range', 'range'), ('unclaimed', 'unclaimed')):
        if k in kinds:
            return name
    return 'foreign-string'


def fail(aspect, what, expected, observed, at=None, v=None):
    return dict(aspect=aspect, what=what, at=at, expected=expected, observed=observed, v=v)


def check_items(vm, model, fails):
    want = [(e.binary(), e.string) for e in model.entries]
    try:
        got = list(vm.items())
    except Exception as exc:
        fails.append(fail('items', 'raised:' + type(exc).__name__, repr(want), repr(exc),
                          at=raised_at(exc)))
        return
    what = None
    if len(got) < len(want):
        what = 'fewer-entries'
    elif len(got) > len(want):
        what = 'more-entries'
    else:
        for w, g in zip(want, got):
            if not (isinstance(g, tuple) and len(g) == 2):
                what = 'bad-item'
            elif g[1] != w[1]:
                what = 'string-order'
            elif not binary_matches(w[0], g[0]):
                what = 'binary'
            if what:
                break
    if what:
        fails.append(fail('items', what, repr(want), repr(got)))


def check_tovalues(vm, model, probes, cimtype, fails, stats):
    seen = set()
    tovalues = vm.tovalues
    for v in probes:
        strings, verr_ok, level, decided = model.accept(v)
        arg = cimtype(v) if cimtype is not None else v
        try:
            r = tovalues(arg)
            ok = isinstance(r, str) and r in strings
            if not ok:
                got = owner_level(model, r)
        except ValueError as exc:
            ok = verr_ok
            r = exc
            got = 'ValueError'
        except Exception as exc:
            ok = False
            r = exc
            got = 'raised:' + type(exc).__name__
        if decided:
            stats['decided'] += 1
            stats[level] = stats.get(level, 0) + 1
        if not ok:
            what = 'want-%s:got-%s' % (level, got)
            stats['failed_probes'] += 1
            if what not in seen:
                seen.add(what)
                fails.append(fail('tovalues', what,
                                  'one of %s%s' % (sorted(strings), ' or ValueError' if verr_ok else ''),
                                  repr(r), v=v,
                                  at=raised_at(r) if got.startswith('raised:') else None))


def maps_back(model, p, s):
    return s in model.claimers(p) or s in model.accept(p)[0]


def check_tobinary(vm, model, fails, stats):
    strings = []
    for e in model.entries:
        if e.string not in strings:
            strings.append(e.string)
    pts = model.breakpoints()
    unclaimed = set(e.string for e in model.unclaimed)
    for s in strings:
        stats['tobinary'] += 1
        owners = [e for e in model.entries if e.string == s]
        what = None
        try:
            r = vm.tobinary(s)
        except Exception as exc:
            fails.append(fail('tobinary', 'raised:' + type(exc).__name__,
                              'value or range for %r' % s, repr(exc), at=raised_at(exc)))
            continue
        if r is None:
            if s not in unclaimed:
                what = 'none-for-claimed-string'
        elif is_int(r):
            if model.tmin <= r <= model.tmax:
                if not maps_back(model, r, s):
                    what = 'member-not-mapped-back'
            elif not model.silent:
                what = 'outside-type'
        elif isinstance(r, (tuple, list)) and len(r) == 2 and is_int(r[0]) and is_int(r[1]):
            lo, hi = r
            if lo > hi:
                if not any(e.loose for e in owners):
                    what = 'empty-range'
            else:
                members = [p for p in pts if lo <= p <= hi]
                members += [p for p in (lo, hi) if model.tmin <= p <= model.tmax]
                if not members and not model.silent:
                    what = 'outside-type'
                for p in members:
                    if not maps_back(model, p, s):
                        what = 'member-not-mapped-back'
                        break
        else:
            what = 'bad-result'
        if what is None and model.clean:
            if not binary_matches(owners[0].binary(), r):
                what = 'not-the-entry'
        if what:
            fails.append(fail('tobinary', what, 'tobinary(%r) = %r' % (s, [e.binary() for e in owners]),
                              repr(r)))


def probe_values(spec, model):
    if spec['probes'] == 'full':
        return range(model.tmin, model.tmax + 1)
    return model.breakpoints()


def examine(spec):
    """Run one case. -> dict(outcome, nontrivial, calls, fails, stats)"""
    stats = dict(decided=0, failed_probes=0, tobinary=0, probes=0)
    fails = []
    try:
        model = R.build(spec['vm'], spec['vals'], spec['dflt'], spec['type'])
        reason = None
    except R.Reject as exc:
        model, reason = None, exc.reason
    status, res, at = obtain(spec)
    res_dict = dict(outcome=None, nontrivial=False, calls=1, fails=fails, stats=stats)
    if status == 'unbuildable':
        res_dict['outcome'] = 'constructor-rejected-element'
        return res_dict
    if status == 'raised':
        fails.append(fail('create', 'raised:' + res,
                          'ModelError/ValueError' if model is None else
                          'a mapping' + (' or ModelError/ValueError' if model.silent else ''),
                          res, at=at))
        res_dict['outcome'] = 'create-raised'
        return res_dict
    if status == 'rejected':
        if model is None:
            res_dict['outcome'] = 'both-reject:' + reason
        elif model.silent:
            res_dict['outcome'] = 'rejected-where-statement-silent'
        else:
            fails.append(fail('create', 'rejected-wellformed:' + res, 'a mapping', res))
            res_dict['outcome'] = 'rejected-wellformed'
        return res_dict
    vm = res
    if model is None:
        fails.append(fail('create', 'accepted-malformed:' + reason, 'ModelError/ValueError',
                          'mapping with items %r' % (safe_items(vm),)))
        res_dict['outcome'] = 'accepted-malformed'
        return res_dict
    probes = probe_values(spec, model)
    cimtype = CIMTYPES[spec['type']] if spec['cimint'] else None
    check_items(vm, model, fails)
    check_tovalues(vm, model, probes, cimtype, fails, stats)
    check_tobinary(vm, model, fails, stats)
    stats['probes'] = len(probes)
    res_dict['calls'] = 2 + len(probes) + stats['tobinary']
    res_dict['nontrivial'] = stats['decided'] > 0 or (len(model.entries) == 0)
    if fails:
        res_dict['outcome'] = 'mapped:violation'
    elif model.clean:
        res_dict['outcome'] = 'mapped:clean'
    elif model.loose:
        res_dict['outcome'] = 'mapped:statement-silent-on-some-entry'
    elif model.silent:
        res_dict['outcome'] = 'mapped:overlapping-or-out-of-type'
    else:
        res_dict['outcome'] = 'mapped:duplicate-values-strings'
    return res_dict


def safe_items(vm):
    try:
        return list(vm.items())
    except Exception as exc:
        return repr(exc)


# ------------------------------------------------------------------------------------------
# witnesses and signatures

def token(text, typ):
    if text is None:
        return 'null'
    p = R.parse_entry(text)
    if p is None:
        return 'bad:' + json.dumps(text, ensure_ascii=True)[1:-1]
    if p[0] == 'unclaimed':
        return '..'
    lim = R.TYPE_LIMITS.get(typ)

    def num(n, letter):
        if lim and n == lim[1]:
            return 'max'
        if lim and n == lim[0] and n < 0:
            return 'min'
        if lim and not (lim[0] <= n <= lim[1]):
            return 'out'
        return letter
    if p[0] == 'single':
        t = num(p[1], 'n')
        return t if p[2] == 'dec' else t + '/' + p[2]
    t = ('' if p[1] is None else num(p[1], 'n')) + '..' + ('' if p[2] is None else num(p[2], 'm'))
    if p[1] is not None and p[2] is not None:
        if p[1] == p[2]:
            t += '(n=m)'
        elif p[1] > p[2]:
            t += '(n>m)'
    return t if p[3] == 'dec' else t + '/' + p[3]


def shape(spec):
    """compact abstract rendering of a (minimised) case: numbers are abstracted, structure kept"""
    parts = []
    vm, vals = spec['vm'], spec['vals']
    if vm is None:
        parts.append('novm')
    elif vm == 'NULL':
        parts.append('vm=NULL')
    else:
        parts.append('vm=' + '|'.join(token(t, spec['type']) for t in vm))
    if vals is None:
        parts.append('novals')
    elif vals == 'NULL':
        parts.append('vals=NULL')
    else:
        if isinstance(vm, list) and len(vals) != len(vm):
            parts.append('vals=%+d' % (len(vals) - len(vm)))
        elif vm is None:
            parts.append('vals=%d' % len(vals))
        if len(set(vals)) != len(vals):
            parts.append('dup')
    if spec['dflt'] is not None:
        parts.append('dflt' if spec['dflt'] else 'dflt-empty')
    if spec['type'] != 'uint8':
        parts.append('type=' + spec['type'])
    if spec['kind'] != 'prop':
        parts.append('kind=' + spec['kind'])
    if spec['route'] != 'stub':
        parts.append('route=' + spec['route'])
    if spec['cimint']:
        parts.append('cimint')
    return ';'.join(parts)


def fkey(f):
    """failure class used while reducing a case. For tovalues only the level the answer should
    have come from: which entry pywbem answered with instead depends on incidental details
    (duplicate strings, entry order) and is read off the reduced witness."""
    what = f['what']
    if f['aspect'] == 'tovalues':
        what = what.split(':')[0]
    return (f['aspect'], what, f['at'])


def signature(f, spec):
    sig = dict(check=f['aspect'], what=f['what'], witness=shape(spec))
    if f['at']:
        sig['at'] = f['at']
    return sig


class Reducer:
    """Deterministic reduction of a failing case to a small witness. reduce() is a pure function
    of (spec, failure class); the memo only avoids recomputation within one shard."""

    def __init__(self):
        self.examined = {}
        self.reduced = {}
        self.witness = {}
        self.tests = 0

    def fails_of(self, spec):
        k = json.dumps(spec, sort_keys=True)
        r = self.examined.get(k)
        if r is None:
            self.tests += 1
            r = set(fkey(f) for f in examine(spec)['fails']) if valid(spec) else set()
            if len(self.examined) < 200000:
                self.examined[k] = r
        return r

    def note(self, spec, res):
        """remember the result of a case the shard examined anyway"""
        if len(self.examined) < 200000:
            self.examined[json.dumps(spec, sort_keys=True)] = set(fkey(f) for f in res['fails'])

    def reduce(self, spec, key, depth=0):
        k = (json.dumps(spec, sort_keys=True), key)
        out = self.reduced.get(k)
        if out is not None:
            return out
        out = None
        vm, vals = spec['vm'], spec['vals']
        # 1. drop one ValueMap entry together with its Values item (last entry first: prefixes
        #    were enumerated before)
        if isinstance(vm, list) and isinstance(vals, list):
            for i in reversed(range(len(vm))):
                cand = dict(spec, vm=vm[:i] + vm[i + 1:],
                            vals=vals[:i] + vals[i + 1:] if i < len(vals) else vals)
                if key in self.fails_of(cand):
                    out = self.reduce(cand, key, depth)
                    break
        if out is None:
            out = self.polish(spec, key)
            if out != spec and depth < 6:
                out = self.reduce(out, key, depth + 1)
        self.reduced[k] = out
        return out

    def polish(self, spec, key):
        def malformed(s):
            if not isinstance(s['vm'], list):
                return 0
            return sum(1 for t in s['vm'] if R.parse_entry(t) is None)

        def attempt(cand):
            return valid(cand) and malformed(cand) <= malformed(spec) and key in self.fails_of(cand)

        def canonical_values(s):
            if isinstance(s['vm'], list) and isinstance(s['vals'], list):
                n = len(s['vm'])
                for cand in (dict(s, vals=VALSTR[:n], dflt=None), dict(s, vals=VALSTR[:n])):
                    if cand != s and attempt(cand):
                        return cand
            if s['dflt'] is not None and attempt(dict(s, dflt=None)):
                return dict(s, dflt=None)
            return s

        # 2. canonical element / route / type / probes, then Values of equal size and no default
        for field, value in (('route', 'stub'), ('kind', 'prop'), ('cimint', False),
                             ('type', 'uint8'), ('probes', 'bounds')):
            if spec[field] != value:
                cand = dict(spec, **{field: value})
                if attempt(cand):
                    spec = cand
        spec = canonical_values(spec)

        # 3. generic minimisation of the two arrays (index 0 of a list is a tag for mc.minimize)
        def pack(s):
            d = {}
            for k in ('vm', 'vals'):
                if s[k] is not None:
                    d[k] = ['L'] + s[k] if isinstance(s[k], list) else s[k]
            return d

        def unpack(d):
            s = dict(spec)
            for k in ('vm', 'vals'):
                x = d.get(k)
                if isinstance(x, list):
                    if not x or x[0] != 'L':
                        return None
                    x = x[1:]
                s[k] = x
            return s
        nulls = (spec['vm'].count(None) if isinstance(spec['vm'], list) else 0)

        def still(d):
            s = unpack(d)
            if s is None or not valid(s):
                return False
            if isinstance(s['vm'], list) and s['vm'].count(None) > nulls:
                return False
            return attempt(s)
        frozen = set(VALSTR) | {DFLT, 'NULL', 'L'}
        spec = unpack(M.minimize(pack(spec), still, frozen=frozen, max_tests=600))
        # 4. plain literals where the entry does not matter
        if isinstance(spec['vm'], list):
            for i, t in enumerate(spec['vm']):
                if t != '0' and isinstance(t, str):
                    cand = dict(spec, vm=spec['vm'][:i] + ['0'] + spec['vm'][i + 1:])
                    if attempt(cand):
                        spec = cand
        return canonical_values(spec)


def record(spec, res, acc, reducer):
    stats = res['stats']
    acc.case(json.dumps(spec, sort_keys=True), nontrivial=res['nontrivial'], outcome=res['outcome'],
             calls=res['calls'],
             sample=dict(spec=spec, probes=stats['probes']) if res['outcome'] == 'mapped:clean' and
             len(spec['vm'] or []) >= 2 else None)
    acc.count('tovalues_probes', stats['probes'])
    acc.count('tovalues_answers_decided_by_model', stats['decided'])
    acc.count('tobinary_calls', stats['tobinary'])
    for lvl in ('exact', 'range', 'unclaimed', 'ValueError'):
        if stats.get(lvl):
            acc.count('tovalues_level_' + lvl, stats[lvl])
    if spec['route'] == 'faked':
        acc.count('cases_through_FakedWBEMConnection', 1)
    done = set()
    for f in res['fails']:
        key = fkey(f)
        if key in done:
            continue
        done.add(key)
        if reducer is None:
            small, sf = spec, f
        else:
            small = reducer.reduce(spec, key)
            wk = (json.dumps(small, sort_keys=True), key)
            sf = reducer.witness.get(wk)
            if sf is None:
                sf = [g for g in examine(small)['fails'] if fkey(g) == key]
                if not sf:
                    raise HarnessError('reduced witness does not fail: %r -> %r %r' %
                                       (spec, small, key))
                sf = reducer.witness[wk] = sf[0]
        case = dict(small, v=sf['v'])
        acc.violation(signature(sf, small), case, sf['expected'], sf['observed'])


# ------------------------------------------------------------------------------------------
# enumeration

def values_variants(n):
    """(Values array, values_default) variants for a ValueMap of n entries, family sizes"""
    out = []
    for d in (None, DFLT, ''):           # '' is a given default (falsy but not None)
        if n >= 1:
            out.append((VALSTR[:n - 1], d))
        if n >= 2:
            out.append((VALSTR[:n - 2], d))
        out.append((VALSTR[:n + 1], d))
        out.append((VALSTR[:n + 2], d))
        if n >= 2:
            out.append((['a'] * n, d))
        if n >= 3:
            out.append((['a'] + VALSTR[1:n - 1] + ['a'], d))
            out.append((['a', 'a'] + VALSTR[2:n], d))
    out.append((VALSTR[:n], DFLT))
    if n >= 1:
        out.append(([DFLT] + VALSTR[1:n - 1], DFLT))      # padding repeats an existing string
    return out


def probes_for(typ):
    return 'full' if typ in ('uint8', 'sint8') else 'bounds'


def shard_sequences(shard):
    for first in shard['firsts']:
        for seq in sequences(shard['len'], first):
            yield seq


def cases_core(shard, b):
    typ = shard['type']
    for seq in shard_sequences(shard):
        vm = [render(a, typ) for a in seq]
        yield mkspec(vm, VALSTR[:len(vm)], None, typ, probes=probes_for(typ))


def cases_sizes(shard, b):
    typ = shard['type']
    for seq in shard_sequences(shard):
        vm = [render(a, typ) for a in seq]
        for vals, d in values_variants(len(vm)):
            yield mkspec(vm, list(vals), d, typ)


def cases_kinds(shard, b):
    typ, route = shard['type'], shard['route']
    for seq in shard_sequences(shard):
        vm = [render(a, typ) for a in seq]
        n = len(vm)
        for kind in KINDS:
            for vals, d in ((VALSTR[:n], None), (VALSTR[:n + 1], DFLT), (VALSTR[:max(0, n - 1)], DFLT)):
                yield mkspec(vm, list(vals), d, typ, kind, route, cimint=True)


def cases_novm(shard, b):
    typ = shard['type']
    for n in range(0, b['novm_len'] + 1):
        for tup in itertools.product(['a', 'b'], repeat=n):
            for d in (None, DFLT):
                for kind in KINDS:
                    for route in ('stub', 'faked'):
                        yield mkspec(None, list(tup), d, typ, kind, route, probes_for(typ))


def cases_special(shard, b):
    for kind in KINDS:
        for typ in TYPES:
            for d in (None, DFLT):
                yield mkspec(None, None, d, typ, kind)                 # no qualifiers at all
                yield mkspec(['0', '1'], None, d, typ, kind)           # ValueMap without Values
                yield mkspec(['0', '1'], 'NULL', d, typ, kind)         # Values with NULL value
                yield mkspec('NULL', ['a', 'b'], d, typ, kind)         # ValueMap with NULL value
                yield mkspec('NULL', 'NULL', d, typ, kind)
                yield mkspec([None], ['a'], d, typ, kind)              # NULL array entries
                yield mkspec(['0', None], ['a', 'b'], d, typ, kind)
                yield mkspec([None, '1'], ['a', 'b'], d, typ, kind)
                yield mkspec([], [], d, typ, kind)                     # empty arrays
                yield mkspec([], ['a'], d, typ, kind)
                yield mkspec(['0'], [], d, typ, kind)
        for typ in NONINT_TYPES:
            for vm in (None, ['0', '1'], ['x']):
                for d in (None, DFLT):
                    yield mkspec(vm, ['a', 'b'][:len(vm) if vm else 2], d, typ, kind)


# lexical level: single entries and range bounds that are almost integers of some notation
LEX_INTS = ['1\u0662', '-4\u0968', '\u0661', '1\uff15', '\uff11', '1_0', ' 5', '5 ', '+', '-', '+ 5', '0x', '0X5', '0xg', '0x5g',
            '0x 5', '5b', '0b1', '1b', '102b', '0101B', '1\u0661b', '009', '0_7', '1e3', '1.0', '5.', '--1', '+-1', '0x-5',
            '5L', '0o7', '1,0', '\t5', '5\t', '5\r', '\u00b2', '1\u00b2', '١', '0x\uff15', '0\u0667']


def cases_lexical(shard, b):
    for typ in ('uint8', 'sint16'):
        for a in LEX_INTS:
            for vm in ([a], [a + '..9'], ['1..' + a], ['..' + a], [a + '..'], ['0', a], [a, '..']):
                yield mkspec(vm, VALSTR[:len(vm)], None, typ, probes=probes_for(typ))


def cases_wide(shard, b):
    typ = shard['type']
    for seq in shard_sequences(shard):
        vm = [render(a, typ) for a in seq]
        yield mkspec(vm, VALSTR[:len(vm)], None, typ, probes='full')


FAMILIES = {'core': cases_core, 'sizes': cases_sizes, 'kinds': cases_kinds, 'novm': cases_novm,
            'special': cases_special, 'wide': cases_wide, 'lexical': cases_lexical}


ALL_FIRSTS = list(range(-1, len(ATOMS)))


def groups(n):
    """ALL_FIRSTS split into n interleaved groups"""
    return [ALL_FIRSTS[i::n] for i in range(n)]


def plan(tier, seed):
    b = BOUNDS[tier]
    shards = []
    for typ in TYPES:
        # every value is probed for the 8-bit types: one shard per first atom
        for firsts in groups(len(ALL_FIRSTS) if typ in ('uint8', 'sint8') else 5):
            shards.append(dict(check='core', type=typ, firsts=firsts, len=b['valuemap_len']))
    for typ in TYPES:
        if typ in b['sizes_long_types']:
            for firsts in groups(len(ALL_FIRSTS)):
                shards.append(dict(check='sizes', type=typ, firsts=firsts, len=b['sizes_len_long']))
        else:
            for firsts in groups(b['sizes_short_groups']):
                shards.append(dict(check='sizes', type=typ, firsts=firsts, len=b['sizes_len_short']))
    for typ in TYPES:
        shards.append(dict(check='kinds', type=typ, route='stub', firsts=ALL_FIRSTS, len=b['kinds_len']))
        shards.append(dict(check='kinds', type=typ, route='faked', firsts=ALL_FIRSTS,
                           len=b['kinds_faked_len']))
        shards.append(dict(check='novm', type=typ))
    shards.append(dict(check='special'))
    shards.append(dict(check='lexical'))
    if b['wide_len']:
        for typ in ('uint16', 'sint16'):
            for firsts in groups(len(ALL_FIRSTS)):
                shards.append(dict(check='wide', type=typ, firsts=firsts, len=b['wide_len']))
    # big shards first (better packing); the order never changes what is explored
    weight = {'wide': 0, 'core': 1, 'sizes': 2, 'kinds': 3, 'novm': 4, 'special': 5, 'lexical': 6}
    shards.sort(key=lambda s: (weight[s['check']], s.get('type') not in ('uint8', 'sint8')))
    return shards


def run_shard(shard, tier):
    warnings.simplefilter('ignore')
    acc = Acc()
    reducer = Reducer()
    for spec in FAMILIES[shard['check']](shard, BOUNDS[tier]):
        res = examine(spec)
        reducer.note(spec, res)
        record(spec, res, acc, reducer)
    acc.count('reduction_tests', reducer.tests)
    return acc


def replay(case, tier):
    warnings.simplefilter('ignore')
    acc = Acc()
    spec = {k: case[k] for k in ('vm', 'vals', 'dflt', 'type', 'kind', 'route', 'probes', 'cimint')}
    if not valid(spec):
        raise HarnessError('not a C20 case: %r' % (case,))
    record(spec, examine(spec), acc, None)
    return acc


def snippet(case):
    quals = []
    for name, x in (('ValueMap', case['vm']), ('Values', case['vals'])):
        if x is not None:
            quals.append('pywbem.CIMQualifier(%r, %r, type="string")' %
                         (name, None if x == 'NULL' else x))
    q = '[' + ', '.join(quals) + ']'
    kind = case['kind']
    arr = kind.endswith('[]')
    if kind.startswith('prop'):
        cls = ('pywbem.CIMClass("C", properties=[pywbem.CIMProperty("P", None, type=%r, '
               'is_array=%r, qualifiers=%s)])' % (case['type'], arr, q))
        call = 'pywbem.ValueMapping.for_property(S(), "ns", "C", "P", values_default=%r)' % case['dflt']
    elif kind == 'method':
        cls = ('pywbem.CIMClass("C", methods=[pywbem.CIMMethod("M", return_type=%r, '
               'qualifiers=%s)])' % (case['type'], q))
        call = 'pywbem.ValueMapping.for_method(S(), "ns", "C", "M", values_default=%r)' % case['dflt']
    else:
        cls = ('pywbem.CIMClass("C", methods=[pywbem.CIMMethod("M", return_type="uint32", '
               'parameters=[pywbem.CIMParameter("Q", %r, is_array=%r, qualifiers=%s)])])' %
               (case['type'], arr, q))
        call = ('pywbem.ValueMapping.for_parameter(S(), "ns", "C", "M", "Q", values_default=%r)'
                % case['dflt'])
    return ('import pywbem\n'
            'def test_replay():\n'
            '    cls = %s\n'
            '    class S:\n'
            '        def GetClass(self, *a, **k):\n'
            '            return cls\n'
            '    vm = %s   # must be a mapping, ModelError or ValueError\n'
            '    print(list(vm.items()))\n'
            '    print(vm.tovalues(%r))\n' % (cls, call, case.get('v') if case.get('v') is not None else 0))
