"""C14 - pull enumeration sessions deliver each object exactly once, within limits (mode H).

Explicit-state BFS (mc/explore.py) over open/pull/close histories on a live
pywbem_mock.FakedWBEMConnection.  Every event calls the real client method
(WBEMConnection.Open.../Pull.../CloseEnumeration -> FakedWBEMConnection._imeth_* ->
MainProvider._open_response/_pull_response/CloseEnumeration); next to the connection the state
carries a small reference model per session:

    ref   the result of the corresponding traditional operation, computed on a clone of the
          connection at the moment of the Open (as a multiset of object identities)
    got   what the session has delivered so far
    kind  the Pull operation pywbem documents for this Open operation
    status open / eos / closed, and the last context the client was given (for stale use)

Sub-checks (signature field 'check'):
  open        Open...: at most MaxObjectCount objects, only objects of ref, none twice, eos only
              when everything was delivered; must succeed iff the traditional operation does
  pull        Pull... of the documented kind on an open session: the same, plus MaxObjectCount > 0
              => at least one object or eos; must not be refused
  wrong-kind  Pull... of another kind on an open session: CIM_ERR_INVALID_ENUMERATION_CONTEXT and
              the session's context on the server is untouched
  stale       Pull.../CloseEnumeration with the context of a session that reached eos or was
              closed: CIM_ERR_INVALID_ENUMERATION_CONTEXT
  bogus       Pull.../CloseEnumeration with a made-up context: CIM_ERR_INVALID_ENUMERATION_CONTEXT
  close       CloseEnumeration on an open session succeeds
  leak        whenever all sessions are at eos or closed, the server's context table is empty

Signature: {'check', 'what', 'op', 'moc'}.
  op   Open operation name | '<instances|paths|query>-session/<Pull operation used>' for a pull on
       an open session | plain Pull operation name for stale/made-up contexts | CloseEnumeration
  moc  class of MaxObjectCount relative to what the session still has to deliver: None, 0,
       negative, lt-remaining, eq-remaining, gt-remaining, positive (stale/made-up), '-' where the
       answer is decided before MaxObjectCount is looked at (refusals, wrong-kind acceptance)
The case is {'n': number of objects, 'history': shortest event history (BFS order)}.

Events (JSON lists):  ['open', op, MaxObjectCount(, parameter variant)]  ['pull', session index,
Pull operation, MaxObjectCount]  ['close', session index]  ['xpull', made-up context id, Pull
operation, MaxObjectCount]  ['xclose', made-up context id]  ['rmns'].  'pull'/'close' use the
last context the session was given, whether it is still valid or not.

World: namespace root/s (not the default namespace, so that it can be removed) with classes
TST_A (n instances), TST_B (one instance) and the association TST_AB linking the TST_B instance
to every TST_A instance: all seven Open operations have n results.

The state graphs are small (a session is a cursor), so the BFS always reaches its fixpoint long
before the depth bound: on the unchanged tree the complete reachable graph for the event alphabet
is explored (evidence counter bfs_complete_state_graph == bfs_runs).
"""
import json
import pickle
import re

import pywbem
import pywbem_mock
import pywbem_mock._mainprovider as _mp
from pywbem import CIMError, CIMInstance, CIMInstanceName, Uint32

from mc.core import Acc, HarnessError
from mc import explore
from mc.explore import Problem, StepResult

ID = 'C14'
RULE = ('a case is one transition (state, event) of the open/pull/close state graph; the graph is '
        'explored breadth-first from an empty server with canonical-state dedup, every event '
        'executed by the real FakedWBEMConnection; a transition is non-trivial unless pywbem '
        'rejected the call locally (ValueError/TypeError before reaching the server); one BFS per '
        '(number of objects n, Open operation of the 1st/2nd/3rd session of a history)')
ASSUMPTIONS = [
    'object identity = class name, keybindings (host/namespace of paths ignored) and property '
    'values; order of delivery is not demanded',
    'MainProvider.ExecQuery (documented as not implemented, always CIM_ERR_NOT_SUPPORTED) is '
    'replaced by a 6-line stub "SELECT * FROM <class>" -> EnumerateInstances so that '
    'OpenQueryInstances has a result; pywbem\'s own tests mock it the same way; the reference '
    'for query sessions is the stub\'s result (the client-side ExecQuery path is not used)',
    'the Pull kind of a session is the one the WBEMConnection documentation names: '
    'PullInstancesWithPath for OpenEnumerateInstances/OpenAssociatorInstances/'
    'OpenReferenceInstances, PullInstancePaths for the three ...Paths operations, PullInstances '
    'for OpenQueryInstances',
    'uuid.uuid4 in pywbem_mock._mainprovider is replaced by a counter that is part of the state',
    'remove_namespace needs an empty namespace: the event "rmns" deletes all instances, classes and '
    'qualifier declarations of the session namespace through the public API, then removes it; '
    'after that an open session may deliver normally or be refused with any CIM status code '
    '(the statement does not say), stale/bogus contexts may also answer CIM_ERR_INVALID_NAMESPACE',
    'Open with MaxObjectCount=None: no limit is demanded (server default); Open need not make '
    'progress (only Pull with MaxObjectCount > 0 must)',
    'the server default for MaxObjectCount=None is the module attribute '
    'pywbem_mock._mainprovider.DEFAULT_MAX_OBJECT_COUNT (imported from pywbem_mock.config, 100); extra '
    'runs set it to a value below the result size (an environment parameter, not a source change)',
    'a "foreign" context is the other interleaved session\'s context (used with every pull kind) '
    '- with one server there is no other meaning; made-up contexts are separate events',
]
_COMMON = {'open_ops': 7, 'second_session_ops': '7 + none', 'pull_kinds': 3,
           'open_MaxObjectCount': 'None,0,1,2,N-1,N,N+1 (+ 6 parameter variants x {None,1})',
           'pull_MaxObjectCount': '0,1,2,remaining,remaining+1',
           'events_per_session': 6,
           'depth_bound': '6 x sessions events per history (never binding: fixpoint is reached first)',
           'stale_context_uses': '3 pull kinds x MaxObjectCount {0,1} + CloseEnumeration',
           'made_up_contexts': 2, 'remove_namespace_event': True}
BOUNDS = {
    # sessions=2: every ordered pair of Open operations (and single sessions) for every N;
    # three_sessions: all 343 triples for all_ops_N, the 27 triples over one Open operation per
    # pull kind for representative_ops_N; small_N only groups cheap runs into one shard
    'quick': dict(_COMMON, N=[0, 1, 2, 3, 4], small_N=2, sessions=2, small_server_defaults=[2],
                  three_sessions={'all_ops_N': [], 'representative_ops_N': [[0, 1, 2]]}),
    'thorough': dict(_COMMON, N=[0, 1, 2, 3, 4, 5, 6], small_N=3, sessions=2, small_server_defaults=[1, 2, 3],
                     three_sessions={'all_ops_N': [0, 1, 2], 'representative_ops_N': [[3], [4]]}),
}

NS = 'root/s'                      # the sessions' namespace (not the default one: it is removable)
INVCTX = pywbem.CIM_ERR_INVALID_ENUMERATION_CONTEXT
INVNS = pywbem.CIM_ERR_INVALID_NAMESPACE

# Open operation -> documented pull kind
OPS = {
    'OpenEnumerateInstances': 'PullInstancesWithPath',
    'OpenEnumerateInstancePaths': 'PullInstancePaths',
    'OpenAssociatorInstances': 'PullInstancesWithPath',
    'OpenAssociatorInstancePaths': 'PullInstancePaths',
    'OpenReferenceInstances': 'PullInstancesWithPath',
    'OpenReferenceInstancePaths': 'PullInstancePaths',
    'OpenQueryInstances': 'PullInstances',
}
OPNAMES = list(OPS)
KINDS = ['PullInstancesWithPath', 'PullInstancePaths', 'PullInstances']
KIND_REPRESENTATIVES = ['OpenEnumerateInstances', 'OpenAssociatorInstancePaths', 'OpenQueryInstances']
BOGUS = ['no-such-context', '']
MAX_STATES_PER_BFS = 20000        # safety net for broken implementations (largest graph on the
                                  # unchanged tree: about 3 000 states); hitting it is reported as a cap
SAMPLE_PLAN = ['OpenEnumerateInstances', 'OpenAssociatorInstancePaths']
QUERY = 'SELECT * FROM TST_A'
QLANG = 'DMTF:FQL'

MOF = '''
Qualifier Association : boolean = false, Scope(association), Flavor(DisableOverride, ToSubclass);
Qualifier Key : boolean = false, Scope(property, reference), Flavor(DisableOverride, ToSubclass);
class TST_A { [Key] uint32 Id; string Name; };
class TST_B { [Key] uint32 Id; };
[Association] class TST_AB { [Key] TST_B REF Src; [Key] TST_A REF Dst; };
instance of TST_B as $b { Id = 0; };
'''


# ------------------------------------------------------------------------------------------
# owned nondeterminism and the query stub

_CTX = [0]


class _UuidShim:
    """stands in for the uuid module inside pywbem_mock._mainprovider only"""
    @staticmethod
    def uuid4():
        _CTX[0] += 1
        return 'ctx-%d' % _CTX[0]


def _stub_execquery(self, namespace, QueryLanguage, Query):
    """minimal query processor: SELECT * FROM <class>"""
    self.validate_namespace(namespace)
    m = re.match(r'^SELECT \* FROM (\w+)$', Query)
    if not m:
        raise CIMError(pywbem.CIM_ERR_INVALID_QUERY, 'stub: unsupported query')
    return self.EnumerateInstances(namespace, m.group(1))


def _install():
    if not isinstance(_mp.uuid, _UuidShim):
        _mp.uuid = _UuidShim()
    if _mp.MainProvider.ExecQuery is not _stub_execquery:
        _mp.MainProvider.ExecQuery = _stub_execquery
    for name, val in (('DEFAULT_MAX_OBJECT_COUNT', 100), ('OPEN_MAX_TIMEOUT', 40)):
        if getattr(pywbem_mock.config, name) != val:
            raise HarnessError('pywbem_mock.config.%s is not at its default' % name)


# ------------------------------------------------------------------------------------------
# the world: live connection + reference model

class Session:
    def __init__(self, op, ref):
        self.op = op
        self.kind = OPS[op]
        self.ref = ref            # list of identities (traditional operation at open time)
        self.got = []             # identities delivered so far
        self.status = 'open'      # open | eos | closed
        self.ctx = None           # last context tuple the client was given

    def remaining(self):
        rest = list(self.ref)
        for g in self.got:
            if g in rest:
                rest.remove(g)
        return rest


class World:
    def __init__(self, n):
        self.n = n
        self.plan = None          # Open operation allowed for the i-th session (None: any)
        self.sessions = []
        self.nctx = 0             # context ids handed out so far
        self.nsgone = False
        conn = pywbem_mock.FakedWBEMConnection(default_namespace='root/cimv2')
        conn.add_namespace(NS)
        mof = MOF
        for i in range(1, n + 1):
            mof += 'instance of TST_A as $a%d { Id = %d; Name = "n%d"; };\n' % (i, i, i)
            mof += 'instance of TST_AB { Src = $b; Dst = $a%d; };\n' % i
        conn.compile_mof_string(mof, namespace=NS)
        self.conn = conn


_FRESH = {}


def fresh(n, plan=None):
    _install()
    if n not in _FRESH:
        _FRESH[n] = pickle.dumps(World(n), pickle.HIGHEST_PROTOCOL)
    w = pickle.loads(_FRESH[n])
    w.plan = plan
    return w


def table(w):
    return w.conn._mainprovider.enumeration_contexts


def _val(v):
    if isinstance(v, CIMInstanceName):
        return '(' + ident(v) + ')'
    if isinstance(v, list):
        return '[' + ','.join(_val(i) for i in v) + ']'
    return str(v)


def ident(o):
    """identity of a delivered object, independent of host/namespace decoration"""
    if isinstance(o, CIMInstanceName):
        return o.classname.lower() + '.' + ','.join(
            sorted('%s=%s' % (k.lower(), _val(v)) for k, v in o.keybindings.items()))
    if isinstance(o, CIMInstance):
        props = ','.join(sorted('%s=%s' % (k.lower(), _val(p.value))
                                for k, p in o.properties.items()))
        return 'I:%s:%s{%s}' % (ident(o.path) if o.path is not None else '-',
                                o.classname.lower(), props)
    return 'other:' + type(o).__name__ + ':' + repr(o)


def canon(w):
    srv = []
    for cid in sorted(table(w)):
        d = table(w)[cid]
        srv.append((cid, d['pull_type'], d['namespace'], tuple(ident(o) for o in d['data'])))
    ses = []
    for s in w.sessions:
        ses.append((s.op, s.status, s.ctx[0] if s.ctx else None, len(s.ref),
                    # the oracle's future only depends on WHICH objects were delivered (a repeated
                    # delivery is reported when it happens); a set keeps the graph finite even for
                    # an implementation that delivers the same object for ever
                    tuple(sorted(set(s.got))) if s.status == 'open' else ()))
    repo = w.conn.cimrepository
    stores = tuple((ns, repo.get_instance_store(ns).len(), repo.get_class_store(ns).len(),
                    repo.get_qualifier_store(ns).len()) for ns in sorted(repo.namespaces))
    return (w.nctx, w.nsgone, tuple(srv), tuple(ses), stores)


def open_mocs(n):
    return [None] + sorted({0, 1, 2, n - 1, n, n + 1})


def enabled(w):
    evs = []
    i = len(w.sessions)
    if w.plan is None or i < len(w.plan):
        for op in (OPNAMES if w.plan is None else [w.plan[i]]):
            if op is not None:
                for moc in open_mocs(w.n):
                    evs.append(['open', op, moc])
                for var in variants_of(op):
                    for moc in VARIANT_MOCS:
                        evs.append(['open', op, moc, var])
    for i, s in enumerate(w.sessions):
        if s.status == 'open':
            rem = len(s.remaining())
            for kind in KINDS:
                for moc in sorted({0, 1, 2, rem, rem + 1}):
                    evs.append(['pull', i, kind, moc])
        elif s.ctx is not None:
            for kind in KINDS:
                for moc in (0, 1):
                    evs.append(['pull', i, kind, moc])
        else:
            evs.append(['pull', i, s.kind, 1])
        evs.append(['close', i])
    for name in BOGUS:
        for kind in KINDS:
            evs.append(['xpull', name, kind, 1])
        evs.append(['xclose', name])
    if not w.nsgone:
        evs.append(['rmns'])
    return evs


# ------------------------------------------------------------------------------------------
# calling the real code

def call(fn, *args, **kwargs):
    """-> ('ok', result) | ('cim', status code) | ('local', exception name) | ('exc', name)"""
    try:
        return 'ok', fn(*args, **kwargs)
    except CIMError as exc:
        return 'cim', exc.status_code
    except (ValueError, TypeError) as exc:
        return 'local', type(exc).__name__
    except Exception as exc:  # noqa: raised by the code under test, not by the harness
        return 'exc', type(exc).__name__


def bpath():
    return CIMInstanceName('TST_B', {'Id': Uint32(0)}, namespace=NS)


# further Open parameters (_validate_open_params); the server may accept or refuse them
VARIANTS = {
    'ot0': dict(OperationTimeout=0),
    'ot40': dict(OperationTimeout=40),
    'ot41': dict(OperationTimeout=41),
    'coe': dict(ContinueOnError=True),
    'fq-nolang': dict(FilterQuery='Id = 1'),
    'badlang': dict(FilterQueryLanguage='WQL', FilterQuery='Id = 1'),
}
# filter parameters of the association / reference Opens: the session must deliver what the traditional
# operation delivers WITH THE SAME FILTERS (roles of TST_AB: Src = the TST_B end, Dst = the TST_A end)
FILTERS = {
    'f-role-own': dict(Role='Src'), 'f-role-other': dict(Role='Dst'), 'f-role-case': dict(Role='SRC'),
    'f-rrole': dict(ResultRole='Dst'), 'f-rrole-other': dict(ResultRole='Src'),
    'f-ac': dict(AssocClass='TST_AB'), 'f-ac-none': dict(AssocClass='TST_A'),
    'f-rc': dict(ResultClass='TST_A'), 'f-rc-none': dict(ResultClass='TST_B'),
    'f-rc-ref': dict(ResultClass='TST_AB'),
}
VARIANTS.update(FILTERS)
VARIANT_MOCS = [None, 1]


def variants_of(op):
    out = []
    for v in VARIANTS:
        if v.startswith('f-'):
            if 'Associator' in op:
                ok = v != 'f-rc-ref'
            elif 'Reference' in op:
                ok = v.startswith('f-role') or v in ('f-rc-ref', 'f-rc-none')
            else:
                ok = False
        else:
            ok = op != 'OpenQueryInstances' or not v.startswith(('fq', 'bad'))
        if ok:
            out.append(v)
    return out


def real_open(conn, op, moc, variant=None):
    kw = dict(VARIANTS[variant]) if variant else {}
    if op in ('OpenEnumerateInstances', 'OpenEnumerateInstancePaths'):
        return call(getattr(conn, op), 'TST_A', namespace=NS, MaxObjectCount=moc, **kw)
    if op == 'OpenQueryInstances':
        return call(conn.OpenQueryInstances, QLANG, QUERY, namespace=NS, MaxObjectCount=moc, **kw)
    return call(getattr(conn, op), bpath(), MaxObjectCount=moc, **kw)


def traditional(conn, op, variant=None):
    kw = dict(FILTERS[variant]) if variant in FILTERS else {}
    if kw:
        trad = {'OpenAssociatorInstances': conn.Associators, 'OpenAssociatorInstancePaths': conn.AssociatorNames,
                'OpenReferenceInstances': conn.References, 'OpenReferenceInstancePaths': conn.ReferenceNames}[op]
        return call(trad, bpath(), **kw)
    if op == 'OpenEnumerateInstances':
        return call(conn.EnumerateInstances, 'TST_A', namespace=NS)
    if op == 'OpenEnumerateInstancePaths':
        return call(conn.EnumerateInstanceNames, 'TST_A', namespace=NS)
    if op == 'OpenAssociatorInstances':
        return call(conn.Associators, bpath())
    if op == 'OpenAssociatorInstancePaths':
        return call(conn.AssociatorNames, bpath())
    if op == 'OpenReferenceInstances':
        return call(conn.References, bpath())
    if op == 'OpenReferenceInstancePaths':
        return call(conn.ReferenceNames, bpath())
    if op == 'OpenQueryInstances':
        return call(conn._mainprovider.ExecQuery, NS, QLANG, QUERY)
    raise HarnessError('unknown open operation %r' % (op,))


_CODENAMES = {getattr(pywbem, _n): _n for _n in dir(pywbem) if _n.startswith('CIM_ERR_')}


def codename(code):
    return _CODENAMES.get(code, str(code))


SESSION_CLASS = {'PullInstancesWithPath': 'instances-session', 'PullInstancePaths': 'paths-session',
                 'PullInstances': 'query-session'}


def opclass(s, kind):
    """signature field 'op' of a pull: class of the session (by its documented pull kind) / pull used"""
    return '%s/%s' % (SESSION_CLASS[s.kind], kind)


def mclass(moc, rem=None):
    if moc is None:
        return 'None'
    if moc == 0:
        return '0'
    if moc < 0:
        return 'negative'
    if rem is None:
        return 'positive'
    return 'lt-remaining' if moc < rem else 'eq-remaining' if moc == rem else 'gt-remaining'


def describe(res):
    tag, val = res
    if tag == 'ok':
        if val is None:
            return 'returned None'
        return 'returned %d objects %s, eos=%s, context=%s' % (
            len(val[0]), [ident(o) for o in val[0]], val.eos, val.context)
    if tag == 'cim':
        return 'CIMError ' + codename(val)
    return '%s: %s' % (tag, val)


# ------------------------------------------------------------------------------------------
# one transition = one event on the real connection + lock-step oracle

def step(w, ev):
    _CTX[0] = w.nctx
    try:
        pre_quiet = all(s.status != 'open' for s in w.sessions)
        pre_left = len(table(w))
        r = _step(w, ev)
        quiet = all(s.status != 'open' for s in w.sessions)
        left = len(table(w))
        if quiet and left and not (pre_quiet and pre_left == left):
            r.problems.append(Problem(
                dict(check='leak', what='context-left-open', op=r.obs['op'], moc=r.obs['moc']),
                'no enumeration context on the server once all sessions are at eos or closed',
                '%d context(s) in MainProvider.enumeration_contexts: %s' % (left, sorted(table(w)))))
        return r
    finally:
        w.nctx = _CTX[0]


def deliver(s, objs, eos, moc, sig, problems):
    """fold one successful response into session s; append the oracle's complaints"""
    ids = [ident(o) for o in objs]
    rest = s.remaining()
    if moc is not None and len(ids) > moc:
        problems.append(Problem(dict(sig, what='more-than-MaxObjectCount'),
                                'at most %d objects' % moc, '%d objects: %s' % (len(ids), ids)))
    for i in ids:
        if i in rest:
            rest.remove(i)
        elif i in s.ref:
            problems.append(Problem(dict(sig, what='delivered-twice'),
                                    'each object of %s once' % s.ref, '%s again (had %s)' % (i, s.got)))
        else:
            problems.append(Problem(dict(sig, what='alien-object'),
                                    'objects of %s' % s.ref, i))
    s.got.extend(ids)
    if eos and rest:
        problems.append(Problem(dict(sig, what='eos-with-objects-remaining'),
                                'eos only after %s were delivered' % s.ref,
                                'eos, never delivered: %s' % rest))
    return ids, rest


def _step(w, ev):
    conn = w.conn
    what = ev[0]
    problems = []

    if what == 'open':
        op, moc = ev[1], ev[2]
        variant = ev[3] if len(ev) > 3 else None
        pre = pickle.dumps(conn, pickle.HIGHEST_PROTOCOL)
        res = real_open(conn, op, moc, variant)
        obs = dict(op=op, moc=mclass(moc, None))
        if res[0] == 'local':
            return StepResult('open:rejected-locally', False, [], obs)
        ref = traditional(pickle.loads(pre), op, variant)
        if ref[0] not in ('ok', 'cim'):
            raise HarnessError('traditional %s on the clone: %r' % (op, ref))
        if ref[0] == 'ok':
            refids = [ident(o) for o in ref[1]]
            obs['moc'] = mclass(moc, len(refids))
        sig = dict(check='open', op=op, moc=obs['moc'])
        if res[0] == 'exc':
            problems.append(Problem(dict(sig, what='raised:' + res[1]), 'result or CIMError', describe(res)))
            return StepResult('open:raised', True, problems, obs)
        if res[0] == 'cim':
            if variant is not None and variant not in FILTERS:
                return StepResult('open:refused-parameter', True, [], obs)
            if ref[0] == 'ok':
                problems.append(Problem(dict(sig, what='refused:' + codename(res[1])),
                                        'session over %s' % refids, describe(res)))
                return StepResult('open:refused-unexpectedly', True, problems, obs)
            return StepResult('open:refused-like-traditional', True, [], obs)
        r = res[1]
        if ref[0] == 'cim':
            problems.append(Problem(dict(sig, what='accepted-but-traditional-fails'),
                                    'CIMError ' + codename(ref[1]), describe(res)))
            refids = [ident(o) for o in r[0]]
        s = Session(op, refids)
        w.sessions.append(s)
        deliver(s, r[0], r.eos, moc, sig, problems)
        if r.eos:
            s.status = 'eos'
        else:
            s.ctx = tuple(r.context)
        # (eos=False although everything was delivered is allowed by the statement; it is only
        # made visible as an outcome class of its own)
        out = 'open:eos' if r.eos else 'open:more-to-come' if s.remaining() \
            else 'open:all-delivered-eos-pending'
        return StepResult(out, True, problems, obs)

    if what in ('pull', 'xpull'):
        if what == 'pull':
            si, kind, moc = ev[1], ev[2], ev[3]
            s = w.sessions[si]
            ctx = s.ctx
        else:
            s, kind, moc = None, ev[2], ev[3]
            ctx = (ev[1], NS)
        before = None
        if s is not None and s.status == 'open':
            d = table(w).get(ctx[0])
            before = None if d is None else len(d['data'])
        res = call(getattr(conn, kind), ctx, moc)
        rem = len(s.remaining()) if s is not None and s.status == 'open' else None
        live = s is not None and s.status == 'open'
        obs = dict(op=opclass(s, kind) if live else kind, moc=mclass(moc, rem))
        if res[0] == 'local':
            return StepResult('pull:rejected-locally', False, [], obs)

        if s is None or s.status != 'open':
            # made-up context, or context of a session that is at eos / was closed
            chk = 'bogus' if s is None else 'stale'
            sig = dict(check=chk, op=kind, moc=obs['moc'])
            why = 'made-up context' if s is None else 'context after ' + s.status
            if res[0] == 'cim' and (res[1] == INVCTX or (w.nsgone and res[1] == INVNS)):
                return StepResult(chk + ':refused', True, [], obs)
            w8 = ('accepted' if res[0] == 'ok' else 'raised:' + res[1] if res[0] == 'exc'
                  else 'code:' + codename(res[1]))
            if s is not None:
                w8 += '-after-' + s.status
            problems.append(Problem(dict(sig, what=w8),
                                    'CIM_ERR_INVALID_ENUMERATION_CONTEXT (%s)' % why, describe(res)))
            return StepResult(chk + ':VIOLATION', True, problems, obs)

        if res[0] == 'exc':
            problems.append(Problem(dict(check='pull', op=obs['op'], moc='-', what='raised:' + res[1]),
                                    'result or CIMError', describe(res)))
            return StepResult('pull:raised', True, problems, obs)

        if w.nsgone and res[0] == 'cim':
            # namespace of the session was removed: the statement leaves the answer open
            return StepResult('pull:refused-namespace-gone', True, [], obs)

        if kind != s.kind:
            # refusal / acceptance is decided before MaxObjectCount is looked at: moc is '-'
            sig = dict(check='wrong-kind', op=obs['op'], moc='-')
            exp = 'CIM_ERR_INVALID_ENUMERATION_CONTEXT, nothing consumed (session opened by %s)' % s.op
            if res[0] == 'ok':
                r = res[1]
                problems.append(Problem(dict(sig, what='accepted'), exp, describe(res)))
                deliver(s, r[0], r.eos, None, sig, [])
                if r.eos:
                    s.status = 'eos'
                else:
                    s.ctx = tuple(r.context)
                return StepResult('wrong-kind:VIOLATION', True, problems, obs)
            if res[1] != INVCTX:
                problems.append(Problem(dict(sig, what='code:' + codename(res[1])), exp, describe(res)))
            d = table(w).get(ctx[0])
            after = None if d is None else len(d['data'])
            if after != before:
                problems.append(Problem(dict(sig, what='refused-but-consumed'), exp,
                                        'objects held for the context: %s before, %s after'
                                        % (before, after)))
            return StepResult('wrong-kind:refused' if not problems else 'wrong-kind:VIOLATION',
                              True, problems, obs)

        sig = dict(check='pull', op=obs['op'], moc=obs['moc'])
        if res[0] == 'cim':
            problems.append(Problem(dict(sig, moc='-', what='refused:' + codename(res[1])),
                                    'next objects of the open session (opened by %s, remaining %s)'
                                    % (s.op, s.remaining()), describe(res)))
            return StepResult('pull:VIOLATION', True, problems, obs)
        r = res[1]
        ids, rest = deliver(s, r[0], r.eos, moc, sig, problems)
        if moc > 0 and not ids and not r.eos:
            problems.append(Problem(dict(sig, what='no-progress'),
                                    'at least one object or eos for MaxObjectCount=%d' % moc,
                                    describe(res)))
        if r.eos:
            s.status = 'eos'
        else:
            s.ctx = tuple(r.context)
        out = 'pull:eos' if r.eos else 'pull:all-delivered-eos-pending' if not rest \
            else 'pull:keep-alive(0)' if moc == 0 else 'pull:more-to-come'
        return StepResult(out if not problems else 'pull:VIOLATION', True, problems, obs)

    if what in ('close', 'xclose'):
        if what == 'close':
            s = w.sessions[ev[1]]
            ctx = s.ctx
        else:
            s = None
            ctx = (ev[1], NS)
        res = call(conn.CloseEnumeration, ctx)
        obs = dict(op='CloseEnumeration', moc='-')
        if res[0] == 'local':
            return StepResult('close:rejected-locally', False, [], obs)
        if s is None or s.status != 'open':
            chk = 'bogus' if s is None else 'stale'
            sig = dict(check=chk, op='CloseEnumeration', moc='-')
            if res[0] == 'cim' and (res[1] == INVCTX or (w.nsgone and res[1] == INVNS)):
                return StepResult(chk + ':refused', True, [], obs)
            w8 = ('accepted' if res[0] == 'ok' else 'raised:' + res[1] if res[0] == 'exc'
                  else 'code:' + codename(res[1]))
            if s is not None:
                w8 += '-after-' + s.status
            problems.append(Problem(dict(sig, what=w8), 'CIM_ERR_INVALID_ENUMERATION_CONTEXT',
                                    describe(res)))
            return StepResult(chk + ':VIOLATION', True, problems, obs)
        sig = dict(check='close', op='CloseEnumeration', moc='-')
        if res[0] == 'ok':
            s.status = 'closed'
            return StepResult('close:ok', True, [], obs)
        if w.nsgone and res[0] == 'cim':
            # refusing is tolerated once the namespace is gone, but then the refusal itself must have
            # released the context: a context that neither Pull nor Close can release stays open on
            # the server for ever
            if s.ctx is not None and s.ctx[0] in conn._mainprovider.enumeration_contexts:
                problems.append(Problem(dict(check='leak', op='CloseEnumeration', moc='-',
                                             what='context-cannot-be-released-after-namespace-removal'),
                                        'the context is released', describe(res) + ' and the context is still in the table'))
                return StepResult('close:VIOLATION', True, problems, obs)
            s.status = 'closed'
            return StepResult('close:refused-namespace-gone', True, [], obs)
        problems.append(Problem(dict(sig, what=('refused:' + codename(res[1])) if res[0] == 'cim'
                                     else 'raised:' + res[1]),
                                'open session is closed', describe(res)))
        return StepResult('close:VIOLATION', True, problems, obs)

    if what == 'rmns':
        # harness-composed event; a failure here is a harness fault and propagates
        for cls in ('TST_AB', 'TST_A', 'TST_B'):
            for p in conn.EnumerateInstanceNames(cls, namespace=NS):
                conn.DeleteInstance(p)
        for cls in ('TST_AB', 'TST_A', 'TST_B'):
            conn.DeleteClass(cls, namespace=NS)
        for q in conn.EnumerateQualifiers(namespace=NS):
            conn.DeleteQualifier(q.name, namespace=NS)
        conn.remove_namespace(NS)
        w.nsgone = True
        return StepResult('rmns', True, [], dict(op='remove_namespace', moc='-'))

    raise HarnessError('unknown event %r' % (ev,))


# ------------------------------------------------------------------------------------------
# framework entry points

def _shards(tier):
    """each shard: a list of BFS runs [n, plan, max_depth]; plan[i] = Open operation of the i-th
    session of a history (None: no such session)"""
    b = BOUNDS[tier]
    out = []
    big = [n for n in b['N'] if n > b['small_N']]
    for op1 in OPNAMES:
        for op2 in OPNAMES + [None]:
            for ns in [list(range(b['small_N'] + 1))] + [[n] for n in big]:
                out.append(dict(check='session',
                                runs=[[n, [op1, op2], 2 * b['events_per_session']] for n in ns]))
    t = b['three_sessions']
    if t['all_ops_N']:
        for op1 in OPNAMES:
            for op2 in OPNAMES:
                out.append(dict(check='session',
                                runs=[[n, [op1, op2, op3], 3 * b['events_per_session']]
                                      for op3 in OPNAMES for n in t['all_ops_N']]))
    for op1 in KIND_REPRESENTATIVES:
        for op2 in KIND_REPRESENTATIVES:
            for op3 in KIND_REPRESENTATIVES:
                for ns in t['representative_ops_N']:
                    out.append(dict(check='session',
                                    runs=[[n, [op1, op2, op3], 3 * b['events_per_session']]
                                          for n in ns]))
    # the server default for MaxObjectCount=None (pywbem_mock.config.DEFAULT_MAX_OBJECT_COUNT, 100)
    # set below the result size, so that "None" on the Open really leaves objects for the pulls
    for op1 in OPNAMES:
        for op2 in (OPNAMES + [None] if tier == 'thorough' else [None, op1]):
            out.append(dict(check='session',
                            runs=[[n, [op1, op2], 2 * b['events_per_session'], d]
                                  for d in b['small_server_defaults'] for n in b['N'] if n > d]))
    # biggest first (load balance only; the runner's seed permutes the order anyway)
    out.sort(key=lambda sh: -sum((r[0] + 2) ** len([o for o in r[1] if o]) for r in sh['runs']))
    return out


def plan(tier, seed):
    return _shards(tier)


def run_shard(shard, tier):
    acc = Acc()
    acc.state_hashes = set()
    for run in shard['runs']:
        n, plan_, depth = run[:3]
        sdef = run[3] if len(run) > 3 else 100
        _mp.DEFAULT_MAX_OBJECT_COUNT = sdef
        w = fresh(n, plan_)

        sampled = (n == 2 and plan_ == SAMPLE_PLAN)   # exactly one BFS run: samples do not depend
                                                      # on shard order

        def on_transition(parent_key, depth, ev, r, child_key, n=n, sampled=sampled, sdef=sdef):
            acc.case((n, sdef, parent_key, json.dumps(ev)), nontrivial=r.nontrivial, outcome=r.outcome,
                     sample=dict(n=n, sessions=[list(x[:3]) for x in parent_key[3]], event=ev,
                                 outcome=r.outcome, after_events=depth)
                     if sampled and depth == 4 and r.outcome in ('pull:eos', 'wrong-kind:refused',
                                                                 'stale:refused') else None)

        res = explore.bfs(w, enabled, step, canon, max_depth=depth,
                          snap=explore.PickleSnap(), on_transition=on_transition,
                          max_states=MAX_STATES_PER_BFS)
        for v in res.violations.values():
            acc.violation(v['sig'], dict(check=v['sig']['check'], n=n, history=v['history'],
                                         server_default=sdef),
                          v['expected'], v['observed'])
            cur = acc.violations[json.dumps(v['sig'], sort_keys=True, ensure_ascii=True)]
            cur['count'] += v['count'] - 1
        acc.state_hashes |= {hash((n, sdef, k)) for k in res.state_keys}
        acc.count('bfs_runs')
        acc.count('bfs_complete_state_graph' if res.fixpoint else 'bfs_stopped_by_depth_bound')
        acc.count('bfs_levels_total', res.depth)
        if res.capped:
            acc.cap(res.capped)
    return acc


def replay(case, tier):
    acc = Acc()
    _mp.DEFAULT_MAX_OBJECT_COUNT = case.get('server_default', 100)
    w = fresh(case['n'], None)
    trace, problems = explore.run_history(w, step, case['history'])
    for ev, r in trace:
        acc.case((case['n'], json.dumps(ev)), nontrivial=r.nontrivial, outcome=r.outcome)
    for p in problems:
        acc.violation(p.sig, dict(check=p.sig['check'], n=case['n'], history=case['history'],
                                  server_default=case.get('server_default', 100)),
                      p.expected, p.observed)
    return acc


def snippet(case):
    return ('import sys; sys.path.insert(0, "/verif")\n'
            'import mc\n'
            'from checks import c14_pull_sessions as c14\n'
            'def test_replay():\n'
            '    # world: TST_A with %d instances, each associated to TST_B.Id=0, in namespace %r\n'
            '    acc = c14.replay(%r, "quick")\n'
            '    assert not acc.violations, [v["sig"] for v in acc.violations.values()]\n'
            % (case.get('n', 0), NS, case))
