"""C03 — everything pywbem puts on the wire is well-formed, DTD-valid CIM-XML (modes E + D).

Sub-checks:
  request   every operation method x argument sets with <= k parameters off their default
            (x default_namespace x pull/traditional for Iter*): the captured HTTP body must be
            well-formed XML 1.0, valid against DSP0203, and CIMOperation/CIMMethod/CIMObject/
            Content-Length must agree with the body. A call that raises before sending passes.
  object    tocimxmlstr() of every C01 object spec (plus XML-illegal string atoms): well-formed and
            DTD-valid as a fragment.
  listener  the real ListenerRequestHandler (C17 harness: in-memory socket, stub server) is fed every
            single body deviation of a valid ExportIndication request (attribute values incl. markup
            characters and non-ASCII text that the listener echoes, renamed / missing / extra
            elements, parameter variants); every response body it emits must be well-formed and
            DTD-valid CIM-XML.
"""
import itertools
import json
import re
import warnings

from lxml import etree

import pywbem

from mc.core import Acc
from mc import domains as D
from mc import minimize as M
from mc import ops, dtd, transport

ID = 'C03'
RULE = ('operation calls are enumerated from mc/ops.py (41 methods, per-parameter domains incl. '
        'XML-illegal strings and unusual names) with at most k parameters off their default; '
        'objects from the C01 enumeration plus XML-illegal atoms; non-trivial = a request was '
        'actually sent / tocimxmlstr() returned a document')
ASSUMPTIONS = ['lxml (libxml2) is the independent well-formedness and DTD validator',
               'tests/dtd/DSP0203_2.3.1.dtd is the DSP0203 DTD',
               'a call that raises before anything is sent "fails locally" (any exception type)',
               'for instance-level CIMObject headers namespace, class name and key names are compared, '
               'not the key value rendering']
BOUNDS = {'quick': {'params_off_default': 2, 'illegal_string_len': 2},
          'thorough': {'params_off_default': 3, 'illegal_string_len': 2}}
NSHARDS = 64
DEFAULT_NAMESPACES = ['root/cimv2', 'a', 'a/b/c']


# ------------------------------------------------------------------------------------------
# request sub-check

class _Sent(Exception):
    pass


def do_call(op, args, default_ns, pull):
    """-> (list of captured PreparedRequests, exception or None)"""
    def handler(request):
        return 500, 'Internal', {}, b''
    kw = {}
    if op.startswith('Iter'):
        kw['use_pull_operations'] = pull
    conn, ad = transport.connect(handler, default_namespace=default_ns, **kw)
    exc = None
    try:
        ops.call(conn, op, args)
    except BaseException as e:   # noqa: any exception = the call failed (locally or on the 500)
        exc = e
    return ad.requests, exc


def _hdr(request, name):
    v = request.headers.get(name)
    if isinstance(v, bytes):
        try:
            v = v.decode('utf-8')
        except UnicodeDecodeError:
            v = v.decode('latin-1')
    return v


def check_request(request):
    """-> None or (what, where, expected, observed)"""
    body = transport.request_body(request)
    bad = dtd.check(body)
    if bad:
        kind, detail = bad
        if kind == 'dtd-invalid':
            return 'dtd-invalid', dtd.dtd_error_class(detail), 'DTD-valid body', detail
        if kind in ('illegal-char', 'ill-formed', 'not-utf8'):
            return kind, xml_context(body, detail), 'well-formed XML 1.0', detail
    root = etree.fromstring(body)
    clen = _hdr(request, 'Content-Length')
    if clen is None or int(clen) != len(body):
        return 'header', 'Content-Length', len(body), clen
    call = root.find('.//IMETHODCALL')
    mcall = root.find('.//METHODCALL')
    ecall = root.find('.//EXPMETHODCALL')
    if ecall is not None:
        if _hdr(request, 'CIMExport') != 'MethodRequest':
            return 'header', 'CIMExport', 'MethodRequest', _hdr(request, 'CIMExport')
        if _hdr(request, 'CIMExportMethod') != ecall.get('NAME'):
            return 'header', 'CIMExportMethod', ecall.get('NAME'), _hdr(request, 'CIMExportMethod')
        return None
    el = call if call is not None else mcall
    if el is None:
        return 'body', 'no-methodcall', 'IMETHODCALL|METHODCALL|EXPMETHODCALL', root.tag
    if _hdr(request, 'CIMOperation') != 'MethodCall':
        return 'header', 'CIMOperation', 'MethodCall', _hdr(request, 'CIMOperation')
    if _hdr(request, 'CIMMethod') != el.get('NAME'):
        return 'header', 'CIMMethod', el.get('NAME'), _hdr(request, 'CIMMethod')
    nsp = el.find('./LOCALNAMESPACEPATH')
    if nsp is None:
        nsp = el.find('./*/LOCALNAMESPACEPATH')
    ns = '/'.join(n.get('NAME') for n in nsp.findall('NAMESPACE')) if nsp is not None else None
    cimobj = _hdr(request, 'CIMObject')
    if call is not None:
        if cimobj != ns:
            return 'header', 'CIMObject', ns, cimobj
        return None
    lcp = el.find('./LOCALCLASSPATH')
    lip = el.find('./LOCALINSTANCEPATH')
    if lcp is not None:
        exp = '%s:%s' % (ns, lcp.find('CLASSNAME').get('NAME'))
        if cimobj != exp:
            return 'header', 'CIMObject', exp, cimobj
    elif lip is not None:
        iname = lip.find('INSTANCENAME')
        prefix = '%s:%s.' % (ns, iname.get('CLASSNAME'))
        if cimobj is None or not cimobj.startswith(prefix):
            return 'header', 'CIMObject', prefix + '...', cimobj
        for kb in iname.findall('KEYBINDING'):
            if kb.get('NAME') + '=' not in cimobj:
                return 'header', 'CIMObject-key', kb.get('NAME'), cimobj
    else:
        return 'body', 'no-local-path', 'LOCALCLASSPATH|LOCALINSTANCEPATH', [c.tag for c in el]
    return None


def xml_context(body, detail):
    """where in the document the first XML-illegal character sits: text:<ELEMENT> or
    attr:<NAME>@<ELEMENT> (root-cause class for signatures)"""
    try:
        text = body.decode('utf-8', 'replace')
    except Exception:
        return '?'
    m = dtd._ILLEGAL.search(text)
    if not m:
        return 'syntax'
    pos = m.start()
    lt = text.rfind('<', 0, pos)
    gt = text.rfind('>', 0, pos)
    if lt > gt:
        # inside a tag -> attribute value
        tag = re.match(r'<([\w.]+)', text[lt:])
        attr = re.findall(r'(\w+)="[^"]*$', text[lt:pos])
        return 'attr:%s@%s' % (attr[-1] if attr else '?', tag.group(1) if tag else '?')
    tag = re.match(r'<([\w.]+)', text[lt:]) if lt >= 0 else None
    return 'text:%s' % (tag.group(1) if tag else '?')


def request_verdict(op, args, default_ns, pull):
    """-> (outcome, what, where, expected, observed)"""
    try:
        reqs, exc = do_call(op, args, default_ns, pull)
    except (ValueError, TypeError):
        return 'spec-rejected', None, None, None, None
    if not reqs:
        return 'failed-locally:' + type(exc).__name__, None, None, None, None
    for r in reqs:
        bad = check_request(r)
        if bad:
            what, where, exp, obs = bad
            return 'invalid-request', what, where, exp, obs
    return 'sent-valid', None, None, None, None


def args_in_domain(args):
    return isinstance(args, dict) and all(isinstance(v, list) and D.valid(v) for v in args.values())


def check_call(op, args, default_ns, pull, acc, minimize=True):
    out, what, where, exp, obs = request_verdict(op, args, default_ns, pull)
    key = (op, D.key(args), default_ns, pull)
    acc.case(key, nontrivial=(out in ('sent-valid', 'invalid-request')), outcome=out,
             sample=dict(op=op, args=args, default_namespace=default_ns) if out == 'sent-valid' and
             op in ('InvokeMethod', 'CreateInstance') else None)
    if what is None:
        return
    case = dict(check='request', op=op, args=args, default_namespace=default_ns, pull=pull)
    if minimize:
        base = ops.default_args(op)

        def still(a):
            if set(a) != set(base) or not args_in_domain(a):
                return False
            o2, w2, wh2, _, _ = request_verdict(op, a, default_ns, pull)
            return w2 == what and wh2 == where
        # replace every parameter by its default where the failure persists, then shrink the rest
        cur = dict(args)
        for p in sorted(cur):
            trial = dict(cur)
            trial[p] = base[p]
            if still(trial):
                cur = trial
        case['args'] = cur
    off = sorted(p for p in case['args'] if case['args'][p] != ops.default_args(op)[p])
    acc.violation(dict(check='request', what=what, where=where), case, exp, obs)
    acc.count('violating-params:' + ','.join(off))


# ------------------------------------------------------------------------------------------
# object sub-check

def object_specs(tier):
    from checks import c01_xml_roundtrip as c01
    b = c01.BOUNDS['quick']
    for spec in itertools.chain(c01.value_specs(), c01.attr_specs(), c01.tree_specs(2),
                                c01.embedded_specs(2, 1)):
        yield spec
    atoms = D.XML_ILLEGAL_ATOMS + ['a', '<', ']]>', '\r']
    for s in D.strings_over(atoms, BOUNDS[tier]['illegal_string_len'], 1):
        for spec in c01.string_contexts(s):
            yield spec
        yield c01.embedded(1, s)
    for ns in ops.PATH_NS:
        for h in (None, 'h'):
            ip = ['ipath', 'Foo', [['k', ['s', 'x']]], ns, h]
            yield ip
            yield ['cpath', 'Foo', ns, h]
            yield ['inst', 'Foo', [['prop', 'p', ['s', 'x'], {}]], ip]
            yield ['class', 'Foo', [], [], {'path': ['cpath', 'Foo', ns, h]}]
            yield ['prop', 'R', ip, {'type': 'reference'}]
    for w in ops.WEIRD:
        yield ['cpath', w, None, None]
        yield ['cpath', 'Foo', w, 'h']
        yield ['ipath', w, [[w, ['s', 'x']]], None, None]
        yield ['inst', w, [['prop', w, ['s', 'x'], {}]], None]
        yield ['class', w, [['prop', w, ['n'], {'type': 'string'}]], [['meth', w, 'uint8', [['param', w, 'string', {}]], {}]],
               {'superclass': w}]
        yield ['qdecl', w, 'string', {}]
        yield ['qual', w, ['s', 'x'], {}]
        yield ['prop', 'P', ['n'], {'type': 'reference', 'reference_class': w}]
        yield ['prop', 'P', ['n'], {'type': 'string', 'class_origin': w}]


def object_verdict(spec):
    try:
        o = D.build(spec)
    except (ValueError, TypeError):
        return 'rejected-by-constructor', None, None, None, None
    try:
        x = o.tocimxmlstr()
    except Exception as exc:
        return 'encode-rejected:' + type(exc).__name__, None, None, None, None
    bad = dtd.check(x)
    if bad is None:
        return 'valid', None, None, None, None
    kind, detail = bad
    if kind == 'dtd-invalid':
        return 'invalid', 'dtd-invalid', dtd.dtd_error_class(detail), 'DTD-valid fragment', detail
    xb = x.encode('utf-8', 'surrogatepass') if isinstance(x, str) else x
    return 'invalid', kind, xml_context(xb, detail) if kind != 'not-utf8' else 'surrogate', \
        'well-formed XML 1.0', detail


def check_object(spec, acc, minimize=True):
    out, what, where, exp, obs = object_verdict(spec)
    acc.case(('obj', D.key(spec)), nontrivial=out in ('valid', 'invalid'), outcome='object:' + out)
    if what is None:
        return
    case = dict(check='object', spec=spec)
    acc.violation(dict(check='object', what=what, where=where), case, exp, obs)


# ------------------------------------------------------------------------------------------

# ------------------------------------------------------------------------------------------
# listener sub-check

def listener_specs():
    from checks import c17_listener_http as c17
    yield {}
    for d in c17.body_deviations():
        if d[0] in ('trunc', 'byte'):
            continue        # ill-formed requests get an HTTP error without body (C17 judges those)
        yield {'body': d}


def check_listener(spec, acc):
    from checks import c17_listener_http as c17
    world = c17.World()
    out, exc = world.request(c17.build_request(spec))
    key = ('listener', json.dumps(spec, sort_keys=True))
    if exc is not None:
        acc.case(key, nontrivial=False, outcome='listener:handler-raised (C17)')
        return
    problem, status, headers, body = c17.parse_response(out)
    if problem or not body or 'xml' not in headers.get('content-type', ''):
        acc.case(key, nontrivial=False, outcome='listener:no-cimxml-body')
        return
    bad = dtd.check(body)
    acc.case(key, nontrivial=True, outcome='listener:%s:%s' % (status, 'valid' if bad is None else bad[0]),
             sample=dict(spec=spec, response=body.decode('utf-8', 'replace')[:300])
             if spec.get('body') and spec['body'][0] == 'attr-set' and bad is None else None)
    if bad:
        kind, detail = bad
        where = dtd.dtd_error_class(detail) if kind == 'dtd-invalid' else xml_context(body, detail)
        acc.violation(dict(check='listener', what=kind, where=where), dict(check='listener', spec=spec),
                      'well-formed, DTD-valid export response', '%s | %s' % (detail, body[:200]))


def call_cases(tier):
    budget = BOUNDS[tier]['params_off_default']
    for op in ops.OPS:
        pulls = (True, False) if op.startswith('Iter') else (None,)
        for args in ops.arg_sets(op, budget):
            off = sum(1 for p, d in ops.OPS[op] if args[p] != ops.DOM[d][0])
            for pull in pulls:
                # default_namespace is one more dimension of the deviation budget
                nss = DEFAULT_NAMESPACES if off < budget else DEFAULT_NAMESPACES[:1]
                for ns in nss:
                    yield op, args, ns, pull


def plan(tier, seed):
    shards = [dict(check='request', part=i, of=NSHARDS) for i in range(NSHARDS)]
    shards += [dict(check='object', part=i, of=16) for i in range(16)]
    shards += [dict(check='listener', part=i, of=8) for i in range(8)]
    return shards


def run_shard(shard, tier):
    warnings.simplefilter('ignore')
    acc = Acc()
    part, of = shard['part'], shard['of']
    if shard['check'] == 'request':
        for i, (op, args, ns, pull) in enumerate(call_cases(tier)):
            if i % of == part:
                check_call(op, args, ns, pull, acc)
    elif shard['check'] == 'listener':
        import logging
        logging.disable(logging.CRITICAL)
        for i, spec in enumerate(listener_specs()):
            if i % of == part:
                check_listener(spec, acc)
    else:
        for i, spec in enumerate(object_specs(tier)):
            if i % of == part:
                check_object(spec, acc)
    return acc


def replay(case, tier):
    warnings.simplefilter('ignore')
    acc = Acc()
    if case['check'] == 'request':
        check_call(case['op'], case['args'], case['default_namespace'], case['pull'], acc, minimize=False)
    elif case['check'] == 'listener':
        import logging
        logging.disable(logging.CRITICAL)
        check_listener(case['spec'], acc)
    else:
        check_object(case['spec'], acc, minimize=False)
    return acc


def snippet(case):
    return ('import sys; sys.path.insert(0, "/verif")\nimport mc\nfrom checks import c03_wire_valid as c\n'
            'def test_replay():\n    acc = c.replay(%r, "quick")\n    assert not acc.violations\n' % (case,))
