"""C07 — WBEM URIs round-trip and canonical URIs respect path equality (modes E + D).

Sub-checks (signature field 'check'):
  roundtrip   from_wbem_uri(p.to_wbem_uri(fmt)) == p for every enumerated path and format;
              every printed URI is accepted by the parser
  canonical   p == p' (re-cased / key-permuted variant)  =>  canonical(p) == canonical(p')
  total       from_wbem_uri(text) returns a path or raises ValueError, for both classes, on every
              string over the delimiter alphabet up to length L and on every single-character edit
              of printed URIs
"""
import itertools
import json
import math
import os
import re
import warnings

from pywbem import CIMInstanceName, CIMClassName, CIMDateTime
from pywbem._cim_types import CIMInt, CIMFloat

from mc.core import Acc, reset_library_caches
from mc import domains as D
from mc import minimize as M

ID = 'C07'
RULE = ('paths are enumerated from the path alphabet (class name x keybinding values of every '
        'kind x namespace x host x nesting depth) and printed in all four formats; texts are all '
        'strings over the delimiter atoms up to length L plus all single edits of printed URIs; '
        'a case is non-trivial if pywbem accepted the input and the comparison was executed '
        '(string keys that themselves read as a datetime or URI are the documented limit and '
        'count as trivial)')
ASSUMPTIONS = ['typed numeric keys are compared by numeric value (documented limit of untyped URIs)',
               'string keys that pywbem itself parses as datetime or WBEM URI are excluded (documented limit)',
               'NaN keys are compared with isnan']
BOUNDS = {
    'quick': {'key_string_len': 3, 'parser_text_len': 4, 'nesting_depth': 3},
    'thorough': {'key_string_len': 4, 'parser_text_len': 5, 'nesting_depth': 3},
}

KEY_ATOMS = ['a', '"', "'", '\\', ',', '=', '.', ':', '/', '\n', 'é', '1']
TEXT_ATOMS = ['a', '1', '0x', 'b', 'e', '"', "'", '\\', ',', '=', '.', ':', '/', '\n', 'é', '-',
              '+', '*', 'true']
FORMATS = ['standard', 'canonical', 'historical', 'cimobject']
NSHARDS = 64


# ------------------------------------------------------------------------------------------
# value alphabets

def scalar_values(strlen):
    for s in D.strings_over(KEY_ATOMS, strlen):
        yield ['s', s]
    for s in ['TRUE', 'true', '0', '-1', '1.5', 'INF', 'NaN', '0x10', '101b', ' ', ' a ', 'A',
              '\U0001F600', '\t', '\r', 'a' * 70, '//h/a:Foo.k=1', '/:Foo.k="x"', 'Foo.k=1',
              '20140924193040.654321+120', '00000000000000.000000:000']:
        yield ['s', s]
    yield ['b', True]
    yield ['b', False]
    for t in D.INT_TYPES:
        for v in D.int_lattice(t):
            yield ['i', t, v]
    for v in (0, 1, -1, 255, 2**64 - 1, -2**63, 2**70, 7, 8, 10, 16):
        yield ['i', None, v]
    for f in REALS + D.DECIMAL_REALS:
        for t in (None, 'real32', 'real64'):
            yield D.fspec(f, t)
    for s in D.DATETIMES + D.INTERVALS:
        yield ['dt', s]


REALS = [0.0, -0.0, 1.5, -1.5, 0.1, 1e20, 1e-7, 1e16, 123456789.125, 1.7976931348623157e308,
         5e-324, 2.2250738585072014e-308, 1e22, 1e23, 3.4028234663852886e38, 1.401298464324817e-45,
         float('inf'), float('-inf'), float('nan'), 100.0, 1e15, 12345678901234567890.0]

REDUCED = [['s', 'a'], ['s', ''], ['s', 'a"b'], ['s', 'a\\b'], ['s', 'a,b=c'], ['s', "'"],
           ['s', 'x.y:z/w'], ['b', True], ['i', 'uint8', 5], ['i', None, -7], ['r', None, (1.5).hex()],
           ['dt', D.DATETIMES[0]], ['dt', D.INTERVALS[2]]]

INNER_STR = ['a', '"', '\\', ',', '=', '\\"', 'a"b\\c', ',k=', '']


def path_specs(strlen):
    """the enumerated instance/class path specs"""
    # (1) single key, full value alphabet, two (namespace, host) settings
    for v in scalar_values(strlen):
        for ns, host in ((None, None), ('A/b', 'H.x:5988')):
            yield ['ipath', 'Foo', [['k', v]], ns, host]
    # (2) reduced values, every (namespace, host), class names, key names
    for v in REDUCED:
        for ns in D.NAMESPACES + ['/a/', 'a/b/c']:
            for host in D.HOSTS:
                yield ['ipath', 'Foo', [['k', v]], ns, host]
        for cn in D.NAMES + D.NAMES_UNI + ['CIM_Foo']:
            for kn in ['K', 'k_1', 'Ünï', 'Name', 'Straße', 'ǅx']:
                yield ['ipath', cn, [[kn, v]], 'a', 'h']
        # names whose lower() and casefold() differ, in every component that is compared by lower()
        for cn, ns in (('ACME_Straße', 'a'), ('Foo', 'a/Straße'), ('ǅx', 'root/ǅ'), ('Straße', 'Straße/ß')):
            yield ['ipath', cn, [['k', v]], ns, None]
            yield ['ipath', 'Foo', [['r', ['ipath', cn, [['k', v]], ns, None]]], 'a', 'h']
            yield ['cpath', cn, ns, None]
    # (3) two and three keys (order, case)
    for v1, v2 in itertools.product(REDUCED, repeat=2):
        yield ['ipath', 'Foo', [['k1', v1], ['K2', v2]], 'a', None]
        yield ['ipath', 'Foo', [['B', v1], ['a', v2]], None, 'h']
    for v in REDUCED:
        yield ['ipath', 'Foo', [['c', v], ['B', ['s', 'x,y']], ['a', v]], 'a', None]
        # several keys, some with names that start with a non-ASCII letter (they sort after the
        # ASCII names, so they are never the first keybinding of the printed URI)
        yield ['ipath', 'Foo', [['Name', ['s', 'dev1']], ['Änd', v]], 'a', None]
        yield ['ipath', 'Foo', [['Id', ['i', None, 1]], ['Über', ['s', 'a,b=1']], ['Zone', v]], None, 'h']
        yield ['ipath', 'Foo', [['Ünï', v], ['ßx', v], ['_u', v]], 'a', None]
        yield ['ipath', 'Foo', [['r', ['ipath', 'In', [['k', v], ['Änd', ['s', 'x']]], 'n', None]]], 'a', None]
    # (4) nested references, depth 1..3, special characters at every level
    for s1 in INNER_STR:
        inner1 = ['ipath', 'In1', [['k', ['s', s1]]], None, None]
        yield ['ipath', 'Foo', [['r', inner1]], 'a', None]
        for ns, host in (('x/Y', None), ('x', 'H1'), (None, 'h')):
            yield ['ipath', 'Foo', [['r', ['ipath', 'In1', [['k', ['s', s1]]], ns, host]]], 'a', 'H']
        for s2 in INNER_STR:
            inner2 = ['ipath', 'In2', [['K', ['s', s2]], ['r1', inner1]], 'n2', None]
            yield ['ipath', 'Foo', [['R', inner2], ['s', ['s', s2]]], None, None]
            for s3 in ['a', '"', '\\', ',x="']:
                inner3 = ['ipath', 'In3', [['r2', inner2], ['z', ['s', s3]]], None, 'h3']
                yield ['ipath', 'Foo', [['r3', inner3]], 'a', None]
    for v in REDUCED:
        inner1 = ['ipath', 'In1', [['Kx', v], ['ky', ['i', 'sint16', -3]]], 'N', None]
        inner2 = ['ipath', 'In2', [['r1', inner1], ['b', v]], None, None]
        yield ['ipath', 'Foo', [['r', inner1]], None, None]
        yield ['ipath', 'Foo', [['r', inner2], ['v', v]], 'a', 'h']
    # (5) no keybindings (warning only)
    yield ['ipath', 'Foo', [], 'a', None]
    yield ['ipath', 'Foo', None, None, None]
    # (6) class paths
    for cn in D.NAMES + D.NAMES_UNI + ['CIM_Foo']:
        for ns in D.NAMESPACES + ['/a/', 'a/b/c']:
            for host in D.HOSTS:
                yield ['cpath', cn, ns, host]


# ------------------------------------------------------------------------------------------
# oracle helpers

def kind(v):
    if isinstance(v, bool):
        return 'bool'
    if isinstance(v, (CIMFloat, float)):
        return 'real'
    if isinstance(v, (CIMInt, int)):
        return 'int'
    if isinstance(v, CIMDateTime):
        return 'datetime'
    if isinstance(v, CIMInstanceName):
        return 'ref'
    if isinstance(v, (str, bytes)):
        return 'str'
    return type(v).__name__


def ambiguous_string(s):
    """string key that pywbem itself reads as a datetime or as a WBEM URI (documented limit)"""
    try:
        CIMDateTime(s)
        return True
    except ValueError:
        pass
    try:
        CIMInstanceName.from_wbem_uri(s)
        return True
    except ValueError:
        return False


def has_ambiguous(p):
    if not isinstance(p, CIMInstanceName):
        return False
    for v in p.keybindings.values():
        if isinstance(v, str) and ambiguous_string(v):
            return True
        if isinstance(v, CIMInstanceName) and has_ambiguous(v):
            return True
    return False


def paths_agree(p, q, fmt):
    """None if q is an acceptable reading of p printed in fmt, else a transformation class"""
    if type(p) is not type(q):
        return 'type:%s->%s' % (type(p).__name__, type(q).__name__)
    exp_host = None if fmt == 'cimobject' else p.host
    if (exp_host is None) != (q.host is None) or \
            (exp_host is not None and exp_host.lower() != q.host.lower()):
        return 'host'
    if (p.namespace is None) != (q.namespace is None) or \
            (p.namespace is not None and p.namespace.lower() != q.namespace.lower()):
        return 'namespace'
    if p.classname.lower() != q.classname.lower():
        return 'classname'
    if fmt != 'canonical':
        if p.classname != q.classname:
            return 'classname-case'
        if p.namespace != q.namespace:
            return 'namespace-case'
        if exp_host != q.host:
            return 'host-case'
    if isinstance(p, CIMClassName):
        return None
    # key names are compared the way pywbem's NocaseDict compares them (casefold, not lower)
    pk = {k.casefold(): (k, v) for k, v in p.keybindings.items()}
    qk = {k.casefold(): (k, v) for k, v in q.keybindings.items()}
    if set(pk) != set(qk):
        return 'keynames'
    for lk in pk:
        kn, pv = pk[lk]
        qn, qv = qk[lk]
        if fmt != 'canonical' and kn != qn:
            return 'keyname-case'
        if kind(pv) != kind(qv):
            return 'kind:%s->%s' % (kind(pv), kind(qv))
        if kind(pv) == 'real':
            pf, qf = float(pv), float(qv)
            if math.isnan(pf) or math.isnan(qf):
                if not (math.isnan(pf) and math.isnan(qf)):
                    return 'real-nan'
            elif pf != qf or math.copysign(1.0, pf) != math.copysign(1.0, qf):
                return 'real-value'
        elif kind(pv) == 'ref':
            # nested reference: same format was used recursively; host is kept except cimobject
            sub = paths_agree(pv, qv, fmt)
            if sub:
                return 'nested-' + sub
        elif kind(pv) == 'str':
            if pv != qv:
                return 'string-value:' + strdiff(pv, qv)
        elif pv != qv:
            return 'value:' + kind(pv)
    return None


def strdiff(a, b):
    if a.replace('\r\n', '\n').replace('\r', '\n') == b:
        return 'CR->LF'
    if a.strip() == b:
        return 'stripped'
    if a.replace('\\', '') == b:
        return 'backslash-lost'
    if a.replace('"', '') == b:
        return 'quote-lost'
    return 'other'


def sval_class(spec):
    """coarse description of the key values of a path spec (for signatures)"""
    kinds = set()

    def walk(s):
        if s[0] == 'ipath':
            for _, v in (s[2] or []):
                walk(v)
                if v[0] == 'ipath':
                    kinds.add('ref')
        elif s[0] == 's':
            if '\n' in s[1]:
                kinds.add('str-with-LF')
            else:
                kinds.add('str')
        elif s[0] == 'r':
            kinds.add('real-typed' if s[1] else 'real')
        else:
            kinds.add(s[0])
    walk(spec)
    return '+'.join(sorted(kinds))


# ------------------------------------------------------------------------------------------
# sub-check: roundtrip

def roundtrip_verdict(spec, fmt):
    """-> (outcome, what|None, expected, observed); what is None unless the case violates C07"""
    reset_library_caches()
    try:
        p = D.build(spec)
    except (ValueError, TypeError):
        return 'rejected-by-constructor', None, None, None
    if not isinstance(p, (CIMInstanceName, CIMClassName)):
        return 'rejected-by-constructor', None, None, None
    cls = type(p)
    if not in_domain(spec):
        # e.g. instance paths without keybindings: "not permitted according to DSP0004"
        try:
            cls.from_wbem_uri(p.to_wbem_uri(fmt))
        except (ValueError, TypeError):
            pass
        return 'outside-domain(no keybindings / empty name)', None, None, None
    try:
        u = p.to_wbem_uri(fmt)
    except (ValueError, TypeError) as exc:
        return 'print-rejected:' + type(exc).__name__, None, None, None
    except Exception as exc:  # anything else is not documented
        return 'print-raised', 'print-raised:' + type(exc).__name__, 'URI string', repr(exc)
    try:
        q = cls.from_wbem_uri(u)
    except ValueError as exc:
        return ('printed-not-parsable', 'printed-uri-rejected', 'parser accepts %r' % u,
                'ValueError: %s' % exc)
    except Exception as exc:
        return ('parse-raised', 'parse-raised:' + type(exc).__name__,
                'path or ValueError for %r' % u, repr(exc))
    if has_ambiguous(p):
        return 'ambiguous-string-key', None, None, None
    diff = paths_agree(p, q, fmt)
    eq = (q == (p if fmt != 'cimobject' else strip_host(p)))
    nan = "'nan'" in repr(spec)
    if diff is None and (eq or nan):
        # parse results are independent objects: scribbling over the first result (every nested
        # path, in place) must not change what the same text parses to, nor what an equal path prints
        before = repr(q)
        _scribble(q)
        try:
            q2 = cls.from_wbem_uri(u)
            u2 = D.build(spec).to_wbem_uri(fmt)
        except Exception as exc:   # noqa: the first parse / print of the same input succeeded
            return ('history-dependent', 'second-parse-raised:' + type(exc).__name__, before, repr(exc))
        if repr(q2) != before or u2 != u:
            return ('history-dependent', 'second-parse-differs-after-mutating-first-result', before,
                    'uri=%r second parse=%r second print=%r' % (u, q2, u2))
        return 'ok:' + fmt, None, None, u
    return ('differs', 'differs:' + (diff or 'eq-false'), repr(p), 'uri=%r parsed=%r' % (u, q))


def _scribble(path):
    """change every component of a parsed path in place, nested reference keys first"""
    if isinstance(path, CIMInstanceName):
        for k in list(path.keybindings):
            v = path.keybindings[k]
            if isinstance(v, (CIMInstanceName, CIMClassName)):
                _scribble(v)
        path.keybindings['Scribble'] = 'x'
    path.classname = 'Scribbled'
    path.namespace = 'scribbled/ns'
    path.host = 'scribbled.host'


_NAME = re.compile(r'^[^\W\d]\w*$', re.UNICODE)


def in_domain(spec):
    """well-formed path spec with non-empty CIM names (the minimiser must stay inside the domain)"""
    try:
        if spec[0] == 'cpath':
            return len(spec) == 4 and bool(_NAME.match(spec[1])) and spec[2] != '' and spec[3] != ''
        if spec[0] != 'ipath' or len(spec) != 5:
            return False
        if not _NAME.match(spec[1]) or spec[3] == '' or spec[4] == '':
            return False
        if not spec[2]:
            return False
        for kb in spec[2]:
            if len(kb) != 2 or not _NAME.match(kb[0]) or kb[1] is None:
                return False
            if kb[1][0] == 'ipath' and not in_domain(kb[1]):
                return False
            if kb[1][0] == 'n':
                return False
        return True
    except (TypeError, IndexError, KeyError):
        return False


def check_roundtrip(spec, acc, minimize=True):
    for fmt in FORMATS:
        out, what, exp, obs = roundtrip_verdict(spec, fmt)
        trivial = what is None and not out.startswith('ok:')
        acc.case((D.key(spec), fmt), nontrivial=not trivial, outcome=out,
                 sample=dict(spec=spec, fmt=fmt, uri=obs) if out.startswith('ok:') else None)
        if what is None:
            continue
        case = dict(check='roundtrip', spec=spec, fmt=fmt)
        if minimize:
            case['spec'] = M.minimize(
                spec, lambda sp: in_domain(sp) and roundtrip_verdict(sp, fmt)[1] == what)
            out, what, exp, obs = roundtrip_verdict(case['spec'], fmt)
        fails_in = [f for f in FORMATS if roundtrip_verdict(case['spec'], f)[1] == what]
        acc.violation(dict(check='roundtrip', what=what, formats='+'.join(fails_in),
                           witness=json.dumps(case['spec'], ensure_ascii=True)),
                      case, exp, obs)


def fmtclass(fmt):
    return fmt


def host_class(spec):
    h = spec[4] if spec[0] == 'ipath' else spec[3]
    if h is None:
        return 'none'
    import re
    return 'plain' if re.match(r'^[\w.:@\[\]]*$', h) else 'other-chars'


def strip_host(p):
    q = p.copy()
    q.host = None
    if isinstance(q, CIMInstanceName):
        for k, v in list(q.keybindings.items()):
            if isinstance(v, CIMInstanceName):
                q.keybindings[k] = strip_host(v)
    return q


# ------------------------------------------------------------------------------------------
# sub-check: canonical

def recase(s, mode):
    if s is None:
        return None
    return s.upper() if mode == 0 else s.lower() if mode == 1 else s.swapcase()


def variants(spec):
    """specs that must compare equal to spec: re-cased names/host/namespace, permuted keys,
    at every nesting level"""
    if spec[0] == 'cpath':
        for m in range(3):
            yield ['cpath', recase(spec[1], m), spec[2], spec[3]]
            yield ['cpath', spec[1], recase(spec[2], m), spec[3]]
            yield ['cpath', spec[1], spec[2], recase(spec[3], m)]
            yield ['cpath', recase(spec[1], m), recase(spec[2], m), recase(spec[3], m)]
        return
    kbs = spec[2] or []
    for m in range(3):
        yield ['ipath', recase(spec[1], m), kbs, spec[3], spec[4]]
        yield ['ipath', spec[1], kbs, recase(spec[3], m), spec[4]]
        yield ['ipath', spec[1], kbs, spec[3], recase(spec[4], m)]
        yield ['ipath', spec[1], [[recase(k, m), v] for k, v in kbs], spec[3], spec[4]]
        yield ['ipath', recase(spec[1], m), [[recase(k, m), v] for k, v in reversed(kbs)],
               recase(spec[3], m), recase(spec[4], m)]
    if len(kbs) > 1:
        for perm in itertools.permutations(kbs):
            yield ['ipath', spec[1], [list(x) for x in perm], spec[3], spec[4]]
    # nested levels
    for i, (k, v) in enumerate(kbs):
        if v[0] == 'ipath':
            for vv in variants(v):
                yield ['ipath', spec[1], kbs[:i] + [[k, vv]] + kbs[i + 1:], spec[3], spec[4]]


def check_canonical(spec, acc):
    try:
        p = D.build(spec)
        cp = p.to_wbem_uri('canonical')
    except (ValueError, TypeError):
        acc.case(('canon', D.key(spec)), nontrivial=False, outcome='rejected')
        return
    n = 0
    for vs in variants(spec):
        try:
            pv = D.build(vs)
        except (ValueError, TypeError):
            continue
        n += 1
        if not (p == pv):
            # the variant generator only changes what == ignores; if == disagrees, that is C05's
            # business, here the implication is vacuous
            acc.case(('canon', D.key(spec), D.key(vs)), nontrivial=False, outcome='variant-not-equal')
            continue
        cv = pv.to_wbem_uri('canonical')
        if cv == cp:
            acc.case(('canon', D.key(spec), D.key(vs)), outcome='canonical-equal')
        else:
            acc.case(('canon', D.key(spec), D.key(vs)), outcome='canonical-differs')
            acc.violation(dict(check='canonical', what='equal-paths-different-canonical-uri',
                               level='nested' if 'ipath' in repr(spec[2]) and repr(vs[2]) != repr(spec[2])
                               and spec[0] == 'ipath' and vs[1] == spec[1] and vs[3:] == spec[3:]
                               and [k for k, _ in vs[2] or []] == [k for k, _ in spec[2] or []]
                               else 'top'),
                          dict(check='canonical', spec=spec, variant=vs),
                          cp, cv)


# ------------------------------------------------------------------------------------------
# sub-check: total

def check_text(text, acc, origin):
    for cls in (CIMInstanceName, CIMClassName):
        try:
            r = cls.from_wbem_uri(text)
            out = 'path'
            if not isinstance(r, cls):
                acc.violation(dict(check='total', what='returned:' + type(r).__name__, cls=cls.__name__),
                              dict(check='total', text=text), cls.__name__, repr(r))
        except ValueError:
            out = 'ValueError'
        except Exception as exc:
            out = 'raised'
            acc.violation(dict(check='total', what='raised:' + type(exc).__name__, cls=cls.__name__),
                          dict(check='total', text=text), 'path or ValueError', repr(exc))
        acc.case(('text', cls.__name__, text), nontrivial=(out != 'ValueError'),
                 outcome='%s:%s:%s' % (origin, cls.__name__, out))


def edits(u):
    for i in range(len(u) + 1):
        for a in TEXT_ATOMS:
            yield u[:i] + a + u[i:]
        if i < len(u):
            yield u[:i] + u[i + 1:]
            for a in TEXT_ATOMS:
                yield u[:i] + a + u[i + 1:]


def edit_base_uris():
    out = []
    for spec in itertools.chain(
            [['ipath', 'Foo', [['k', v]], 'a/b', 'h:1'] for v in REDUCED],
            [['ipath', 'Foo', [['k1', ['s', 'a,b']], ['k2', ['i', None, 5]]], None, None],
             ['ipath', 'Foo', [['r', ['ipath', 'In', [['k', ['s', 'a"b']]], 'n', None]]], 'a', None],
             ['cpath', 'Foo', 'a/b', 'h:1'], ['cpath', 'Foo', None, None]]):
        p = D.build(spec)
        for fmt in ('standard', 'historical'):
            out.append(p.to_wbem_uri(fmt))
    return sorted(set(out))


# ------------------------------------------------------------------------------------------

def plan(tier, seed):
    shards = []
    for part in range(NSHARDS):
        shards.append(dict(check='roundtrip', part=part, of=NSHARDS))
    for part in range(NSHARDS):
        shards.append(dict(check='total-strings', part=part, of=NSHARDS))
    for part in range(16):
        shards.append(dict(check='total-edits', part=part, of=16))
    return shards


def run_shard(shard, tier):
    warnings.simplefilter('ignore')
    acc = Acc()
    b = BOUNDS[tier]
    part, of = shard['part'], shard['of']
    if shard['check'] == 'roundtrip':
        for i, spec in enumerate(path_specs(b['key_string_len'])):
            if i % of != part:
                continue
            check_roundtrip(spec, acc)
            check_canonical(spec, acc)
    elif shard['check'] == 'total-strings':
        for i, text in enumerate(D.strings_over(TEXT_ATOMS, b['parser_text_len'])):
            if i % of != part:
                continue
            check_text(text, acc, 'str')
    elif shard['check'] == 'total-edits':
        i = 0
        for u in edit_base_uris():
            for text in edits(u):
                i += 1
                if i % of != part:
                    continue
                check_text(text, acc, 'edit')
    return acc


def replay(case, tier):
    warnings.simplefilter('ignore')
    acc = Acc()
    if case['check'] == 'roundtrip':
        check_roundtrip(case['spec'], acc, minimize=False)
        # keep only the violation of the recorded format (replay is of one case)
        if 'fmt' in case:
            # (one signature covers all formats in which the case fails; the accumulator keeps one
            # witness per signature, not necessarily the one of the recorded format)
            acc.violations = {k: v for k, v in acc.violations.items()
                              if v['case'].get('fmt') == case['fmt']} or acc.violations
    elif case['check'] == 'canonical':
        check_canonical(case['spec'], acc)
        acc.violations = {k: v for k, v in acc.violations.items()
                          if v['case'].get('variant') == case.get('variant')} or acc.violations
    elif case['check'] == 'total':
        check_text(case['text'], acc, 'replay')
    return acc


def snippet(case):
    if case.get('check') == 'total':
        return ('import pywbem, pytest\n'
                'def test_replay():\n'
                '    for cls in (pywbem.CIMInstanceName, pywbem.CIMClassName):\n'
                '        try:\n            cls.from_wbem_uri(%r)\n'
                '        except ValueError:\n            pass\n' % case['text'])
    return ('import sys; sys.path.insert(0, "/verif")\n'
            'from mc import domains as D\n'
            'def test_replay():\n'
            '    p = D.build(%r)\n'
            '    u = p.to_wbem_uri(%r)\n'
            '    assert type(p).from_wbem_uri(u) == p\n' % (case.get('spec'), case.get('fmt', 'canonical')))
