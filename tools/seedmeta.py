#!/venv/bin/python
"""usage: tools/seedmeta.py <seed-name> <needs_to_manifest> [history]  -- annotate seeded/<name>/meta.json"""
import json, sys
p = f'/verif/seeded/{sys.argv[1]}/meta.json'
m = json.load(open(p))
m['needs_to_manifest'] = sys.argv[2]
m['source'] = 'independent sub-agent given only the property text and a scratch worktree of /repo (nothing from /verif)'
if len(sys.argv) > 3:
    m['history'] = sys.argv[3]
json.dump(m, open(p, 'w'), indent=1)
print(p, 'caught' if m.get('caught') else 'MISSED')
