#!/venv/bin/python
"""mkmut.py NAME FILE OLD NEW [COUNT] -> writes /var/tmp/muts/NAME.diff (made in a scratch worktree)"""
import subprocess, sys, os, tempfile
name, f, old, new = sys.argv[1:5]
old = old.encode().decode('unicode_escape'); new = new.encode().decode('unicode_escape')
wt = tempfile.mkdtemp(prefix='mk-', dir='/var/tmp')
os.rmdir(wt)
subprocess.run(['git', '-C', '/repo', 'worktree', 'add', '-q', '--detach', wt, 'HEAD'], check=True)
try:
    p = os.path.join(wt, f)
    s = open(p, encoding='utf-8').read()
    n = s.count(old)
    if n < 1:
        print('OLD not found'); sys.exit(2)
    s = s.replace(old, new, 1)
    open(p, 'w', encoding='utf-8').write(s)
    d = subprocess.run(['git', '-C', wt, 'diff'], capture_output=True, text=True).stdout
    os.makedirs('/var/tmp/muts', exist_ok=True)
    open('/var/tmp/muts/%s.diff' % name, 'w').write(d)
    print('wrote /var/tmp/muts/%s.diff (%d occurrences, first replaced)' % (name, n))
finally:
    subprocess.run(['git', '-C', '/repo', 'worktree', 'remove', '--force', wt])
