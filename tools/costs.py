#!/venv/bin/python
"""print a markdown table of the coverage numbers in /verif/evidence/*.json"""
import json, glob
print('| check | tier | evaluations | distinct non-trivial | states | transitions | outcomes | wall s |')
print('|-------|------|-------------|----------------------|--------|-------------|----------|--------|')
for f in sorted(glob.glob('/verif/evidence/C*.json')):
    e = json.load(open(f)); c = e['coverage']
    print('| %s | %s | %d | %d | %d | %d | %d | %.0f |' % (e['property_id'], e['tier'], c['evaluations'], c['distinct_nontrivial'],
          c['states'], c['transitions'], c['distinct_outcomes'], e['wall_s']))
