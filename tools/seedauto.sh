#!/bin/bash
# usage: tools/seedauto.sh <ID e.g. C05d>   -- validate /var/tmp/seed/<ID>-work with test targets derived from the patch
id=$1; prop=${id:0:3}; work=/var/tmp/seed/$id-work
P=tests/unittest/pywbem; M=tests/unittest/pywbem_mock
t=""
for f in $(grep '^+++ b/' $work/patch.diff | sed 's#+++ b/##'); do
  case $f in
    pywbem_mock/*) t="$t $M";;
    pywbem/_listener.py) t="$t $P/test_indicationlistener.py";;
    pywbem/_mof_compiler.py) t="$t $P/test_mof_compiler.py $M";;
    pywbem/_cim_obj.py) t="$t $P/test_cim_obj.py $P/test_cim_xml.py";;
    pywbem/_cim_operations.py) t="$t $P/test_cim_operations.py $P/test_itermethods.py tests/functiontest $P/test_recorder.py";;
    pywbem/_tupleparse.py|pywbem/_tupletree.py) t="$t $P/test_tupleparse.py $P/test_cim_operations.py";;
    pywbem/_cim_xml.py) t="$t $P/test_cim_xml.py $P/test_cim_obj.py";;
    pywbem/_cim_types.py) t="$t $P/test_cim_types.py $P/test_cim_obj.py";;
    pywbem/_valuemapping.py) t="$t $P/test_valuemapping.py";;
    pywbem/_subscription_manager.py) t="$t $P/test_subscriptionmanager.py";;
    pywbem/_recorder.py|pywbem/_logging.py) t="$t $P/test_recorder.py $P/test_logging.py";;
    pywbem/_cim_http.py) t="$t $P/test_cim_http.py $P/test_cim_operations.py";;
    pywbem/_utils.py) t="$t $P/test_utils.py $P/test_cim_obj.py";;
    pywbem/_nocasedict.py) t="$t $P/test_nocasedict.py $P/test_cim_obj.py";;
    pywbem/_statistics.py) t="$t $P/test_statistics.py";;
    pywbem/_server.py) t="$t $P/test_wbemserverclass.py";;
    *) t="$t $P/test_cim_obj.py";;
  esac
done
t=$(echo $t | tr ' ' '\n' | sort -u | tr '\n' ' ')
/verif/tools/seedcheck.sh seed-$id $work $prop $t 2>&1 | tail -3 | cut -c1-300
