#!/venv/bin/python
"""Regenerate /verif/MANIFEST.json from the table below (kept valid at all times)."""
import json, os, sys
sys.path.insert(0, '/verif')
os.environ.setdefault('PYTHONHASHSEED', '0')
V = '/verif'
PY = '/venv/bin/python'
BASE = json.load(open('/root/.vp/BASELINE.json'))['cmd']

# property id -> (technique, level text, level note, design ref)
CLAIMED = {
 'C07': ('bounded exhaustive input enumeration on the real code (explicit enumeration of all paths/texts in the alphabet, no sampling)',
         'Every instance/class path over the path alphabet (all key kinds, strings up to length L over the URI delimiter atoms, nesting depth 3, hosts, namespaces) is printed in all four formats and re-parsed by the real pywbem code; every re-cased/permuted variant is compared for canonical equality; every text up to length L over the delimiter atoms and every single edit of printed URIs is fed to both parsers. Exhaustive within the stated bounds.',
         'trusts the comparison oracle in checks/c07_uri.py (kind-preserving value comparison, documented untyped-URI limits excluded by construction)', '§5 C07'),
 'C01': ('bounded exhaustive input enumeration on the real code (all object specs of a finite alphabet, both escaping modes), strict attribute-level round-trip oracle',
         'Every typed value of the 15 CIM types as scalar/array/NULL in five carriers, every string up to length L over 16 atoms in every string context and at embedding depth 0..3, attribute combinations and small object trees with all child permutations are encoded with tocimxml() and parsed back with the real parser twice (entity and CDATA escaping); the result is compared attribute by attribute (exact types, case, order) with the original under the DSP0201 defaults, and the second round must be a fixed point with byte-identical XML. Exhaustive within the stated bounds.',
         'trusts mc/objdump.py (strict dump/diff, DSP0201 default table); Real32 values are compared at float32 precision; hosts without namespace and CIMClass.path are not representable in the encoded element and are excluded', '§5 C01'),
 'C03': ('bounded exhaustive enumeration of operation calls (<= k parameters off default) and object specs on the real code; independent validator (libxml2 well-formedness + DSP0203 DTD)',
         'All 41 operation methods are called with every argument set that has at most k parameters away from a minimal valid call (per-parameter domains include unusual names, XML-illegal strings, every object kind), for three default namespaces and both pull modes of Iter*; the captured HTTP body must be well-formed XML 1.0, DTD-valid, and the CIMOperation/CIMMethod/CIMObject/Content-Length headers must agree with the body; tocimxmlstr() of every enumerated object spec is validated the same way. Exhaustive within the bounds.',
         'trusts lxml/libxml2 and tests/dtd/DSP0203_2.3.1.dtd; listener responses are validated by the C17 check', '§5 C03'),
 'C04': ('explicit-state breadth-first exploration of operation histories on the real client code against a CIM-XML server facade, differential against the direct (mock) path',
         'Every event of a ~300-event alphabet (all intrinsic operations, open/pull/close sessions, InvokeMethod with every parameter type) is executed both through the real WBEMConnection HTTP/CIM-XML path (requests transport adapter -> facade that decodes with the server-side parse functions, executes on a mock repository and encodes the reply) and directly on an equal repository; breadth-first to depth 2 (3 in thorough) with deduplication on the canonical dump of both repositories and open sessions. After every event: decoded request == arguments of the direct entry point == the harness-owned independent DSP0200 marshalling of the caller arguments, outcome equal (result objects strictly, or CIMError code), documented path completion of results, repositories equal.',
         'trusts mc/facade.py (DSP0200 parameter-type and return-element tables) and the harness-owned marshalling reference (expected_server_view: namespace resolution, object-name normalisation, None omitted) and completion rules (returned paths name the effective namespace), which make client-side faults visible that affect the HTTP path and the direct path equally', '§5 C04'),
 'C06': ('bounded exhaustive input enumeration on the real code (integer/real/datetime lattices, every constructor form, every (value, type) pair of the typed setters)',
         'Integer lattice x 8 types x all constructor call forms and bases; 71 value atoms x 16 types x 9 setter seams (cimvalue and the constructors/value setters of CIMProperty, CIMQualifier, CIMParameter, CIMQualifierDeclaration); the CIMDateTime field-boundary lattice x precision patterns x UTC offsets (all 2000 offsets on a reduced lattice in quick, on the full lattice in thorough), every string one edit away from a legal one, datetime/timedelta inputs; every exponent x 12 mantissa patterns of float32 and float64 through atomic_to_cim_xml and the parser in three seams. Oracles follow the statement: range, exact stored type or TypeError/ValueError, 25-character DSP0004 string that re-parses to an equal object (independent DSP0004 reader), bit-exact real round trip with INF/-INF/NaN spelling.',
         'trusts mc/refmodels/dsp0004_datetime.py; Real32 values are compared at float32 precision', '§5 C06'),
 'C02': ('bounded exhaustive deviation enumeration (every single deviation of valid response templates at every site) on the real client code through a scripted transport adapter',
         'For each of the 41 operation methods 1-3 valid responses are produced by the CIM-XML facade over a mock repository; every single deviation from a finite mutation alphabet is applied at every site (each element: delete/duplicate/move/rename to every DTD element name/insert every DTD element at every child position; each attribute: delete/add/set to 19 values; each text node: 26 replacements; every prefix truncation; byte replacement at every offset; whole-body alternatives; HTTP status/header variants; 29 transport exceptions) and delivered to the operation. Oracle: returns, or raises a pywbem.Error subclass, within the watchdog; parse errors carry request and response data. Exhaustive for single deviations.',
         'single deviations only (pairs within one element in the thorough tier); termination = 5 s watchdog; trusts the facade templates (each is checked to be accepted by pywbem)', '§5 C02'),
 'C05': ('bounded exhaustive enumeration of object pools (every single-attribute variation of a base object, pairs in thorough) and of all ordered pairs/triples and copy kinds x single mutations, on the real code',
         'Per kind (9 CIM object classes, CIMDateTime, NocaseDict) a pool of 56-323 objects is built from every single-attribute variation (tagged ignorable or distinguishing); the full == matrix is evaluated (reflexivity, symmetry, transitivity via equal rows, != negation, hash and set/dict membership agreement, expected equality from the tags), and every object is copied by copy(), copy.copy, copy.deepcopy and pickle protocols 0-5 with every single mutation applied to the copy down to the documented depth to show that the original is unchanged.',
         'expected equality follows the statement literally; where the class documentation is silent (int vs UintN of equal value, explicit defaults) no answer is demanded', '§5 C05'),
 'C20': ('bounded exhaustive enumeration of ValueMap/Values qualifier pairs and probe values on the real code against an independent DSP0004 reference model',
         'All ValueMap arrays up to length 3 (4 in thorough) over a 24-atom entry alphabet x Values arrays of equal/shorter/longer size with duplicates x values_default x no ValueMap x 8 integer types x 5 element kinds, probed with every value of the 8-bit types (all 65536 values of 16-bit types on arrays <= 2 in thorough) and boundary sets otherwise; tovalues/tobinary/items are compared with mc/refmodels/valuemap.py, and only ModelError/ValueError may be raised.',
         'trusts mc/refmodels/valuemap.py; where DSP0004 is silent (overlapping entries, facing open ranges) any claiming entry or a rejection is accepted', '§5 C20'),
 'C16': ('stateless model checking of the real listener threads: exhaustive, preemption-bounded (iterative context bounding) depth-first exploration of schedules under a controlled cooperative scheduler, with state-signature pruning',
         'pywbem/_listener.py is loaded unmodified with shimmed threading/queue/time; every queue/event/sleep/thread start/join operation, callback entry/exit and every access to the shared fields _ind_queue/_callback_thread is a scheduling point; main (start/stop/restart), 1-3 senders running the real request handler, the server thread and the callback thread are explored under every schedule with at most p preemptions per driver family (p=1, p=2 for the join-then-stop family; p=2/3 in thorough). Per execution: every acknowledged indication delivered exactly once to every callback in registration and sender order, refused ones never, stop() returns without raising, no thread or server left, restart works; deadlock detection; each violation schedule is replayed twice.',
         'scheduling points are the synchronisation operations and the two shared fields (GIL-atomic attribute access assumed in between); the HTTP server is a transcription of socketserver serve_forever/shutdown/server_close; pruning assumes the state signature (thread program counters + simple locals + shared state) determines the future', '§5 C16'),
 'C14': ('explicit-state breadth-first search over pull-session event histories on the real mock server, to the fixpoint of the reachable state graph, lock-step with a list/cursor reference model',
         'For every Open operation (7), result size N (0..4, 0..6 thorough), MaxObjectCount value and every pair (and representative triples) of interleaved sessions, all sequences of Pull (3 kinds x 5 MaxObjectCount classes), CloseEnumeration, stale/foreign/made-up contexts and namespace removal are explored breadth-first with deduplication on a canonical state until no new state appears (the depth bound never binds). On every transition: at most MaxObjectCount objects, delivered multiset = traditional result, eos only when nothing remains, progress or eos, wrong-kind pulls refused without consuming, contexts refused after eos/close, no context left in the server table in quiescent states.',
         'uuid4 replaced by a counter; OpenQueryInstances is reached through a 6-line ExecQuery stub because the mock ExecQuery always raises; states are deduplicated on (delivered set, cursor, server table)', '§5 C14'),
 'C08': ('bounded exhaustive input enumeration on the real code (object lattices, all strings over the MOF atoms, fold sweeps placing every escape at every column) through tomof() and the real MOF compiler',
         'Qualifier declarations, classes and instances from object lattices (every type, arrays, NULLs, char16, references, embedded instances, flavor/scope sets), every string of length <= 3 (4) over 14 MOF atoms in 12 contexts, fold sweeps (every special atom at every column up to 3*maxline for maxline in {40,41,79,80,200}; every maxline 40..120 in thorough) and harness-written multi-part literals are printed with tomof() and recompiled by one long-lived MOFCompiler per worker; the compiled object must equal the original under the projection the statement names, and harness-written DSP0004 literals must denote exactly their characters.',
         'trusts mc/refmodels/mofescape.py (DSP0004 escaping both ways) and the projection (class_origin, propagated, child order, paths are not compared); values MOF cannot express (ToInstance flavor, INF/NaN, keyword names, embedded classes) are excluded', '§5 C08'),
 'C13': ('bounded exhaustive enumeration of association graphs, sources and filter tuples on the real mock server against a brute-force reference read from the raw instance store',
         'All graphs with at most 2 (3) association instances out of 44 (57) candidates over binary, subclassed, same-class and ternary associations incl. self-associations, NULL ends and cross-namespace ends; every instance and class as source; filter tuples (AssocClass, ResultClass, Role, ResultRole) from existing/case-variant/sub/superclass/non-existing names with a total budget on filters set; AssociatorNames/Associators/ReferenceNames/References and reduced Open/Iter variants. Oracles: Names == paths of the full operation, brute-force reference model, adding a filter never adds results, symmetry with mirrored roles.',
         'trusts mc/refmodels/assoc.py; class-level semantics are only checked for names-vs-full and monotonicity (the statement is silent beyond that)', '§5 C13'),
 'C17': ('bounded exhaustive deviation enumeration of HTTP requests (total deviation budget over request line, headers, body) and exhaustive short request histories on the real request handler',
         'Every request that differs from a valid ExportIndication POST in at most 2 (3) dimensions - method, target, version, 17 headers with 2-14 alternatives each (absent, accepted and rejected forms, 8-bit, folded, huge, duplicated), body (every single structural deviation, prefix truncation, byte replacement at every offset, whole-body alternatives, parameter variants) - is given to the real ListenerRequestHandler on an in-memory socket; the bytes written must parse as exactly one HTTP response (independent parser: status line, token: value header lines without bare CR/LF, only known headers, body of Content-Length bytes), 200 bodies must be DTD-valid export responses, pywbem 400/406 responses need a CIMError header, an acknowledged indication is delivered exactly once, a rejected one never; after every request and every history of 1-2 (3) representative requests (unbounded and bounded queue, with and without draining) a valid indication is still acknowledged and delivered once.',
         'in-memory socket (complete delivery, short reads instead of blocking); HTTP/0.9-style requests and responses generated by the stdlib before pywbem code runs only need to be harmless; threading aspects are C16', '§5 C17'),
 'C19': ('bounded exhaustive enumeration of observer configurations x server-behaviour scenarios on the real client code, differential against the bare connection',
         '46 scenarios (every operation family with valid responses incl. non-ASCII and astral text, CIM errors with error instances, CIM-XML and XML parse errors incl. invalid UTF-8, HTTP error statuses, wrong Content-type, transport exceptions) are executed on a bare connection and under every combination of logger (api/http/all x stderr/file x all/paths/summary/None/small integers), TestClientRecorder (on/off/disabled), an extra LogOperationRecorder, statistics and debug, and with EVERY integer detail level 0..R+2 on the multi-byte scenarios (all scenarios in thorough). Compared: result (strict dump) or exception class and args, last_raw_request/last_raw_reply vs the bytes exchanged, statistics counts, and absence of the password (and its base64 form) from all log records, recorder output, str() and repr().',
         'scripted transport and the C02 response templates; log output is read from an in-memory handler plus the configured stream/file', '§5 C19'),
}
NOT_YET = 'check not built yet in this round (planned, see DESIGN.md §5); not claimed until it exists'

props = [json.loads(l) for l in open(V + '/properties.jsonl')]
checks, na = [], []
for p in props:
    pid = p['id']
    if pid in CLAIMED:
        tech, text, note, ref = CLAIMED[pid]
        checks.append({
            'property_id': pid,
            'quick_cmd': 'cd /verif && %s -m mc.run %s --tier quick' % (PY, pid),
            'thorough_cmd': 'cd /verif && %s -m mc.run %s --tier thorough' % (PY, pid),
            'evidence_file': '/verif/evidence/%s.json' % pid,
            'replay_cmd_template': 'cd /verif && %s -m mc.run %s --replay {path}' % (PY, pid),
            'engine': 'mc',
            'level_claimed': {'category': 'model_checking', 'text': text, 'design_ref': 'DESIGN.md ' + ref},
            'level_note': note,
            'technique': tech,
        })
    else:
        na.append({'property_id': pid, 'reason': NOT_YET})
m = {
 'version': 1,
 'setup_cmd': 'cd /verif && %s -m mc.selftest' % PY,
 'hooks': {'guard': 'PYWBEM_VERIF', 'enable': 'no source hooks are needed; checks import pywbem from /repo (or VERIF_REPO) as it is',
           'baseline_off_cmd': BASE, 'source_commits': [], 'add_only': True},
 'engines': [{'name': 'mc', 'path': '/verif/mc', 'serves_properties': sorted(CLAIMED),
              'kind_free_text': 'hand-written bounded exhaustive explorer for Python: input/deviation enumeration, explicit-state BFS over operation histories, preemption-bounded schedule exploration of real threads'}],
 'checks': checks,
 'not_applicable': na,
 'notes': 'Exit 0 with KNOWN-FINDING lines for entries of /verif/known_findings.json; exit 1 with VIOLATION lines otherwise; exit 2 = infrastructure error.',
}
json.dump(m, open(V + '/MANIFEST.json', 'w'), indent=1)
import jsonschema
jsonschema.validate(m, json.load(open('/root/.vp/MANIFEST.schema.json')))
print('MANIFEST.json: %d checks, %d not_applicable' % (len(checks), len(na)))
