#!/bin/bash
# usage: tools/reseed.sh   -- run every stored seeded change against its check (quick tier) on the current /repo HEAD
cd /verif
for d in seeded/seed-*/; do
  n=$(basename $d); prop=$(echo $n | sed 's/seed-\(C[0-9][0-9]\).*/\1/')
  out=$(tools/mutant.sh $d/patch.diff $prop 2>&1 | tail -1)
  echo "$n $prop $out"
done
