#!/venv/bin/python
"""Run every MANIFEST quick_cmd (or thorough_cmd with --thorough) with a seed; print rc, wall, key counts."""
import json, subprocess, sys, time, os
seed = sys.argv[1] if len(sys.argv) > 1 else '0'
key = 'thorough_cmd' if '--thorough' in sys.argv else 'quick_cmd'
only = [a for a in sys.argv[2:] if a.startswith('C')]
m = json.load(open('/verif/MANIFEST.json'))
bad = 0
for c in m['checks']:
    if only and c['property_id'] not in only:
        continue
    t = time.time()
    env = dict(os.environ, VERIF_SEED=seed)
    r = subprocess.run(c[key], shell=True, env=env, stdout=subprocess.PIPE, stderr=subprocess.STDOUT, text=True)
    ev = json.load(open(c['evidence_file']))
    cov = ev['coverage']
    viol = [l for l in r.stdout.splitlines() if l.startswith('VIOLATION')]
    kf = [l for l in r.stdout.splitlines() if l.startswith('KNOWN-FINDING')]
    print('%s rc=%d wall=%.0fs eval=%d nontrivial=%d states=%d trans=%d outcomes=%d exhaustive=%s violations=%d known=%d' % (
        c['property_id'], r.returncode, time.time() - t, cov['evaluations'], cov['distinct_nontrivial'], cov['states'],
        cov['transitions'], cov['distinct_outcomes'], cov['exhaustive'], len(viol), len(kf)), flush=True)
    if r.returncode != 0:
        bad += 1
        print(r.stdout[-1500:])
sys.exit(1 if bad else 0)
