#!/bin/bash
# usage: tools/seedcheck.sh <seed-name> <workdir with patch.diff demo.py notes.md> <PROP> [test targets...]
# Validates an independently written breaking change and stores it under /verif/seeded/<seed-name>/
set -u
name=$1; work=$2; prop=$3; shift 3
tests=${@:-tests/unittest/pywbem tests/unittest/pywbem_mock tests/functiontest}
wt=$(mktemp -d /var/tmp/seedchk-XXXXXX)
git -C /repo worktree add -q --detach "$wt" HEAD || exit 3
out=/verif/seeded/$name; mkdir -p "$out"
cp "$work/patch.diff" "$out/patch.diff"; cp "$work/demo.py" "$out/demo.py"; [ -f "$work/notes.md" ] && cp "$work/notes.md" "$out/notes.md"
( cd "$wt" && git apply "$out/patch.diff" ) || { echo "PATCH DOES NOT APPLY to current HEAD"; git -C /repo worktree remove --force "$wt"; exit 3; }
/venv/bin/python "$out/demo.py" /repo > "$out/demo_unchanged.log" 2>&1; d0=$?
/venv/bin/python "$out/demo.py" "$wt" > "$out/demo_changed.log" 2>&1; d1=$?
echo "demo: unchanged rc=$d0 (want 0), changed rc=$d1 (want 1)"
VERIF_REPO="$wt" /verif/tools/suite.py $tests > "$out/tests.log" 2>&1; t=$?
tail -3 "$out/tests.log"
cd /verif
VERIF_REPO="$wt" /venv/bin/python -m mc.run "$prop" --tier quick > "$out/check.log" 2>&1; c=$?
grep -c "^VIOLATION" "$out/check.log"; grep "signature=" "$out/check.log" | head -5 | cut -c1-300
git -C /repo worktree remove --force "$wt"
head=$(git -C /repo rev-parse --short HEAD)
/venv/bin/python - <<PY
import json
json.dump({"property": "$prop", "name": "$name", "repo_head": "$head",
           "demo_rc_unchanged": $d0, "demo_rc_changed": $d1, "existing_tests_regressions_rc": $t,
           "check_rc": $c, "ran": ["demo.py on /repo and on the patched worktree", "tools/suite.py $tests (VERIF_REPO=patched worktree; rc 0 = no stable_pass test regressed)",
                                   "python -m mc.run $prop --tier quick (VERIF_REPO=patched worktree)"],
           "caught": $c == 1}, open("$out/meta.json", "w"), indent=1)
PY
echo "seed $name: demo ok=$([ $d0 = 0 ] && [ $d1 = 1 ] && echo yes || echo NO) tests rc=$t check rc=$c"
