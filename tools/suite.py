#!/venv/bin/python
"""Run the repository's pinned test suite (sharded by test file, in parallel) and compare with
/root/.vp/BASELINE.json stable_pass.

usage: tools/suite.py [test paths relative to the repo]     (default: whole suite)
Exit 0 iff every stable_pass test that was selected passed (whole suite: every stable_pass test).
"""
import concurrent.futures as cf, glob, json, os, subprocess, sys, tempfile, xml.etree.ElementTree as ET
repo = os.environ.get('VERIF_REPO', '/repo')
stable = set(json.load(open('/root/.vp/BASELINE.json'))['stable_pass'])
args = sys.argv[1:]
whole = not args
if whole:
    targets = []
    for d in sorted(glob.glob(repo + '/tests/*')):
        if not os.path.isdir(d) or os.path.basename(d) in ('dtd', 'schema', 'profiles', '__pycache__'):
            continue
        if os.path.basename(d) == 'unittest':
            for f in sorted(glob.glob(d + '/*/test_*.py')):
                targets.append(os.path.relpath(f, repo))
        else:
            targets.append(os.path.relpath(d, repo))
    # split the two biggest files by keyword to balance
else:
    targets = args
env = dict(os.environ); env.pop('PYWBEM_VERIF', None); env.pop('PYTHONHASHSEED', None)
tmpd = tempfile.mkdtemp(prefix='suite-', dir='/var/tmp')

def run(i_t):
    i, t = i_t
    out = os.path.join(tmpd, '%d.xml' % i)
    cmd = ['/venv/bin/python', '-m', 'pytest', '-q', '-p', 'no:cacheprovider', '--timeout=900',
           '--continue-on-collection-errors', '-o', 'log_file=' + os.path.join(tmpd, '%d.log' % i),
           '--junitxml=' + out, t]
    r = subprocess.run(cmd, cwd=repo, env=env, stdout=subprocess.PIPE, stderr=subprocess.STDOUT, text=True)
    return t, out, r.stdout[-300:]

passed, ran = set(), set()
retry = []

def collect(t, out, tail):
    ok = True
    try:
        for tc in ET.parse(out).getroot().iter('testcase'):
            tid = tc.get('classname', '') + '::' + tc.get('name', '')
            ran.add(tid)
            if not any(ch.tag in ('failure', 'error', 'skipped') for ch in tc):
                passed.add(tid)
            elif tid in stable:
                ok = False
    except Exception as e:
        print('no junit for', t, e, tail)
        ok = False
    return ok

with cf.ThreadPoolExecutor(14) as ex:
    for t, out, tail in ex.map(run, list(enumerate(targets))):
        if not collect(t, out, tail):
            retry.append(t)
# tests that bind fixed ports fail when run next to each other: retry those targets alone
for i, t in enumerate(retry):
    print('retrying alone:', t)
    collect(*run((1000 + i, t)))
import shutil; shutil.rmtree(tmpd, ignore_errors=True)
bad = sorted((stable & ran) - passed)
missing = sorted(stable - ran) if whole else []
print('targets=%d ran=%d passed=%d stable_pass=%d stable-but-not-passed=%d stable-not-run=%d' %
      (len(targets), len(ran), len(passed), len(stable), len(bad), len(missing)))
for t in bad[:40]:
    print('REGRESSION', t)
for t in missing[:10]:
    print('NOT RUN', t)
sys.exit(1 if bad or missing else 0)
