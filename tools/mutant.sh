#!/bin/bash
# usage: tools/mutant.sh <patch.diff> <PROP> [tier]   -- run a check against /repo + patch in a scratch worktree
set -u
patch=$(readlink -f "$1"); prop=$2; tier=${3:-quick}
wt=$(mktemp -d /var/tmp/mut-XXXXXX)
git -C /repo worktree add -q --detach "$wt" HEAD || exit 3
( cd "$wt" && git apply "$patch" ) || { echo "PATCH DOES NOT APPLY"; git -C /repo worktree remove --force "$wt"; exit 3; }
cd /verif
VERIF_REPO="$wt" /venv/bin/python -m mc.run "$prop" --tier "$tier" 2>&1 | grep -v "^  [ceo]" | tail -${MUT_TAIL:-12}
rc=${PIPESTATUS[0]}
git -C /repo worktree remove --force "$wt"
echo "mutant rc=$rc"
exit $rc
