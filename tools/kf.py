#!/venv/bin/python
"""Append an entry to known_findings.json (development-time tool; checks never write the file).
usage: kf.py ID PROP STATUS WHAT COMMIT|- 'SIGNATURE-JSON' 'WITNESS-JSON'"""
import json, sys
p = '/verif/known_findings.json'
d = json.load(open(p))
i, prop, status, what, commit, sig, wit = sys.argv[1:8]
d['findings'] = [e for e in d['findings'] if e['id'] != i]
e = {'id': i, 'property': prop, 'status': status, 'what': what,
     'fix_commit': None if commit == '-' else commit,
     'signature': json.loads(sig), 'witness': json.loads(wit)}
if status == 'fixed':
    e['note'] = 'fixed: property=%s %s %s' % (prop, commit, what)
d['findings'].append(e)
d['findings'].sort(key=lambda e: e['id'])
json.dump(d, open(p, 'w'), indent=1, ensure_ascii=True)
print(len(d['findings']), 'entries')
